// Finding 5 (C16): Positional splices the names unescaped into a struct tag
// (json:"<name>,omitempty"). A name containing ',' or '"', or any character
// encoding/json does not allow in a tag name (e.g. "'"), yields a field whose
// JSON key is NOT the given name: arrays of the right length are rejected, the
// object using the given name is rejected, and an object using a name that
// was never given ("a", or the internal "P_1") is accepted. A name like
// "x,string" even switches on the ",string" option.
//
// Copy to: handler/finding_5_test.go
// Run:     go test -vet=off -timeout 120s -count=1 -run TestFinding5 ./handler/
package handler_test

import (
	"context"
	"encoding/json"
	"testing"

	"github.com/creachadair/jrpc2"
	"github.com/creachadair/jrpc2/handler"
)

func f5req(t *testing.T, params string) *jrpc2.Request {
	t.Helper()
	prs, err := jrpc2.ParseRequests([]byte(`{"jsonrpc":"2.0","id":1,"method":"m","params":` + params + `}`))
	if err != nil || len(prs) != 1 || prs[0].Error != nil {
		t.Fatalf("parse: %v", err)
	}
	return prs[0].ToRequest()
}

func TestFinding5_NamesNotRepresentableInTag(t *testing.T) {
	for _, name := range []string{"a,b", `a"b`, "it's", "x,string"} {
		calls, gx := 0, 0
		fi, err := handler.Positional(func(_ context.Context, x int) int { calls++; gx = x; return x }, name)
		if err != nil {
			continue // rejecting such a name up front would be a correct behaviour
		}
		h := fi.Wrap()

		if _, err := h(context.Background(), f5req(t, `[3]`)); err != nil || calls != 1 || gx != 3 {
			t.Errorf("name %q, params [3]: err=%v calls=%d x=%d; want one call with 3", name, err, calls, gx)
		}

		calls = 0
		key, _ := json.Marshal(name)
		if _, err := h(context.Background(), f5req(t, `{`+string(key)+`:5}`)); err != nil || calls != 1 || gx != 5 {
			t.Errorf("name %q, params {%s:5}: err=%v calls=%d x=%d; want one call with 5", name, key, err, calls, gx)
		}

		for _, other := range []string{`{"a":9}`, `{"x":9}`, `{"P_1":9}`} {
			calls = 0
			if _, err := h(context.Background(), f5req(t, other)); err == nil || calls != 0 {
				t.Errorf("name %q, params %s (a name that was not given): err=%v calls=%d x=%d; want InvalidParams, no call",
					name, other, err, calls, gx)
			}
		}
	}
}
