// Finding 7 (C16, lower severity): keyed decoding is not exact - an object key
// that differs from the given name in letter case ("FIRST" for "first") is not
// among the given names, yet it is accepted and decoded into the argument,
// because encoding/json falls back to case-insensitive field matching and
// DisallowUnknownFields does not disable that.
//
// Copy to: handler/finding_7_test.go
// Run:     go test -vet=off -timeout 120s -count=1 -run TestFinding7 ./handler/
package handler_test

import (
	"context"
	"testing"

	"github.com/creachadair/jrpc2"
	"github.com/creachadair/jrpc2/handler"
)

func TestFinding7_CaseFoldedKeyAccepted(t *testing.T) {
	calls, gx := 0, 0
	h := handler.NewPos(func(_ context.Context, x int) int { calls++; gx = x; return x }, "first")
	prs, _ := jrpc2.ParseRequests([]byte(`{"jsonrpc":"2.0","id":1,"method":"m","params":{"FIRST":3}}`))
	_, err := h(context.Background(), prs[0].ToRequest())
	if err == nil || calls != 0 {
		t.Errorf(`names (first), params {"FIRST":3}: err=%v calls=%d x=%d; want InvalidParams (unknown name), no call`, err, calls, gx)
	}
}
