// Finding 10 (C17): rpc.serverInfo reports a stale start time after the
// server is restarted. Server.Start only sets s.start when it is zero, so the
// second Start (explicitly supported after WaitStatus) keeps the first one's
// time although ServerOptions.StartTime documents "use the current time when
// Start is called".
//
// Copy to: finding_10_test.go (repository root, package jrpc2_test)
// Run:     go test -vet=off -timeout 120s -count=1 -run TestFinding10 .
package jrpc2_test

import (
	"context"
	"testing"
	"time"

	"github.com/creachadair/jrpc2"
	"github.com/creachadair/jrpc2/channel"
	"github.com/creachadair/jrpc2/handler"
)

func TestFinding10_RestartStartTime(t *testing.T) {
	srv := jrpc2.NewServer(handler.Map{"x": handler.New(func(context.Context) int { return 1 })}, nil)
	run := func() time.Time {
		cch, sch := channel.Direct()
		srv.Start(sch)
		cli := jrpc2.NewClient(cch, nil)
		var si jrpc2.ServerInfo
		if err := cli.CallResult(context.Background(), "rpc.serverInfo", nil, &si); err != nil {
			t.Fatalf("rpc.serverInfo: %v", err)
		}
		cli.Close()
		if err := srv.Wait(); err != nil {
			t.Fatalf("Wait: %v", err)
		}
		return si.StartTime
	}
	first := run()
	time.Sleep(20 * time.Millisecond)
	restart := time.Now()
	second := run()
	if second.Before(restart) {
		t.Errorf("second run: rpc.serverInfo startTime=%v is before the second Start (%v); it is the first run's %v",
			second, restart, first)
	}
}
