// Finding 8 (C15): Check/Positional reject an untyped nil with "nil function"
// but accept a nil value of a func type; the wrapper then panics on every
// request (reflect.Value.Call: call of nil function) - in a Server this is an
// unrecovered panic in a handler goroutine.
//
// Copy to: handler/finding_8_test.go
// Run:     go test -vet=off -timeout 120s -count=1 -run TestFinding8 ./handler/
package handler_test

import (
	"context"
	"testing"

	"github.com/creachadair/jrpc2"
	"github.com/creachadair/jrpc2/handler"
)

func TestFinding8_TypedNilFunc(t *testing.T) {
	prs, _ := jrpc2.ParseRequests([]byte(`{"jsonrpc":"2.0","id":1,"method":"m"}`))
	req := prs[0].ToRequest()

	var f func(context.Context) error
	if fi, err := handler.Check(f); err == nil {
		func() {
			defer func() {
				if p := recover(); p != nil {
					t.Errorf("Check accepted a nil func(context.Context) error; calling the wrapper panicked: %v", p)
				}
			}()
			fi.Wrap()(context.Background(), req)
		}()
	}

	var g func(context.Context, int) int
	if fi, err := handler.Positional(g, "x"); err == nil {
		func() {
			defer func() {
				if p := recover(); p != nil {
					t.Errorf("Positional accepted a nil func; calling the wrapper panicked: %v", p)
				}
			}()
			fi.Wrap()(context.Background(), req)
		}()
	}
}
