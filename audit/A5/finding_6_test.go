// Finding 6 (C16): Positional accepts a name list with duplicates; both
// fields then carry the same JSON key, encoding/json drops both as ambiguous,
// and the handler rejects every array of n elements (and the object form).
//
// Copy to: handler/finding_6_test.go
// Run:     go test -vet=off -timeout 120s -count=1 -run TestFinding6 ./handler/
package handler_test

import (
	"context"
	"testing"

	"github.com/creachadair/jrpc2"
	"github.com/creachadair/jrpc2/handler"
)

func TestFinding6_DuplicatePositionalNames(t *testing.T) {
	calls, gx, gy := 0, 0, 0
	fi, err := handler.Positional(func(_ context.Context, x, y int) int {
		calls++
		gx, gy = x, y
		return x + y
	}, "a", "a")
	if err != nil {
		return // rejecting the list up front would be correct
	}
	prs, _ := jrpc2.ParseRequests([]byte(`{"jsonrpc":"2.0","id":1,"method":"m","params":[3,4]}`))
	_, err = fi.Wrap()(context.Background(), prs[0].ToRequest())
	if err != nil || calls != 1 || gx != 3 || gy != 4 {
		t.Errorf("names (a,a), params [3,4]: err=%v calls=%d x=%d y=%d; want one call with 3,4", err, calls, gx, gy)
	}
}
