// Finding 1 (C18): Bridge rejects a UTF-8 JSON content type whose charset is
// not spelled in lower case (charset names are case-insensitive, RFC 7231 s3.1.1.1).
//
// Copy to: jhttp/finding_1_test.go
// Run:     go test -vet=off -timeout 120s -count=1 -run TestFinding1 ./jhttp/
package jhttp_test

import (
	"context"
	"io"
	"net/http"
	"net/http/httptest"
	"strings"
	"sync/atomic"
	"testing"

	"github.com/creachadair/jrpc2/handler"
	"github.com/creachadair/jrpc2/jhttp"
)

func TestFinding1_CharsetCase(t *testing.T) {
	var calls int32
	b := jhttp.NewBridge(handler.Map{"x": handler.New(func(context.Context) int {
		atomic.AddInt32(&calls, 1)
		return 1
	})}, nil)
	defer b.Close()
	hs := httptest.NewServer(b)
	defer hs.Close()

	for _, ct := range []string{
		"application/json; charset=utf-8", // control: accepted
		"application/json; charset=UTF-8",
		"application/json; charset=Utf-8",
		`application/json; charset="UTF-8"`,
		"application/json; charset=UTF8",
	} {
		atomic.StoreInt32(&calls, 0)
		req, _ := http.NewRequest("POST", hs.URL, strings.NewReader(`{"jsonrpc":"2.0","id":1,"method":"x"}`))
		req.Header.Set("Content-Type", ct)
		rsp, err := http.DefaultClient.Do(req)
		if err != nil {
			t.Fatal(err)
		}
		body, _ := io.ReadAll(rsp.Body)
		rsp.Body.Close()
		if rsp.StatusCode != 200 || atomic.LoadInt32(&calls) != 1 {
			t.Errorf("Content-Type %q: status=%d handler calls=%d body=%q; want 200 and exactly one call",
				ct, rsp.StatusCode, atomic.LoadInt32(&calls), body)
		}
	}
}
