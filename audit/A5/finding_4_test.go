// Finding 4 (C16): Positional with a blank name ("" or "-", which makeArgType
// deliberately maps to a json:"-" field, i.e. "position only") rejects every
// array of the right length: the name is still put in posNames, the array is
// rewritten to an object with key ""/"-", and strict decoding then reports an
// unknown field.
//
// Copy to: handler/finding_4_test.go
// Run:     go test -vet=off -timeout 120s -count=1 -run TestFinding4 ./handler/
package handler_test

import (
	"context"
	"testing"

	"github.com/creachadair/jrpc2"
	"github.com/creachadair/jrpc2/handler"
)

func f4req(t *testing.T, params string) *jrpc2.Request {
	t.Helper()
	prs, err := jrpc2.ParseRequests([]byte(`{"jsonrpc":"2.0","id":1,"method":"m","params":` + params + `}`))
	if err != nil || len(prs) != 1 || prs[0].Error != nil {
		t.Fatalf("parse: %v", err)
	}
	return prs[0].ToRequest()
}

func TestFinding4_BlankPositionalName(t *testing.T) {
	for _, name := range []string{"", "-"} {
		calls, gx, gy := 0, 0, 0
		fi, err := handler.Positional(func(_ context.Context, x, y int) int {
			calls++
			gx, gy = x, y
			return x + y
		}, "a", name)
		if err != nil {
			t.Fatalf("Positional(%q): %v", name, err)
		}
		v, err := fi.Wrap()(context.Background(), f4req(t, `[3, 4]`))
		if err != nil || calls != 1 || gx != 3 || gy != 4 {
			t.Errorf("names (a,%q), params [3,4]: result=%v err=%v calls=%d x=%d y=%d; want one call with 3,4",
				name, v, err, calls, gx, gy)
		}
	}
}
