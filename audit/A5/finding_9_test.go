// Finding 9 (C15): the array-to-field mapping uses structFieldNames, which
// derives JSON keys differently from encoding/json:
//   - a tag name with a character encoding/json rejects (e.g. json:"it's")
//     makes encoding/json fall back to the Go field name, but the array
//     element is filed under the tag text and silently dropped;
//   - two fields with the same tag name are both ignored by encoding/json, so
//     both array elements are silently dropped.
// In both cases the function IS called, with zero values instead of the
// array elements (no error), unless strict mode is on.
//
// Copy to: handler/finding_9_test.go
// Run:     go test -vet=off -timeout 120s -count=1 -run TestFinding9 ./handler/
package handler_test

import (
	"context"
	"testing"

	"github.com/creachadair/jrpc2"
	"github.com/creachadair/jrpc2/handler"
)

func TestFinding9_ArrayMappingDisagreesWithJSON(t *testing.T) {
	prs, _ := jrpc2.ParseRequests([]byte(`{"jsonrpc":"2.0","id":1,"method":"m","params":[7,8]}`))
	req := prs[0].ToRequest()

	type badTag struct {
		X int `json:"it's"` // encoding/json uses key "X" for this field
		Y int
	}
	var got badTag
	calls := 0
	h := handler.New(func(_ context.Context, a badTag) error { calls++; got = a; return nil })
	_, err := h(context.Background(), req)
	if !(err != nil && calls == 0) && got != (badTag{X: 7, Y: 8}) {
		t.Errorf("badTag params [7,8]: err=%v calls=%d got %+v; want {X:7 Y:8} (or InvalidParams and no call)", err, calls, got)
	}

	type dupTag struct {
		X int `json:"n"`
		Y int `json:"n"`
	}
	var got2 dupTag
	calls = 0
	h = handler.New(func(_ context.Context, a dupTag) error { calls++; got2 = a; return nil })
	_, err = h(context.Background(), req)
	if !(err != nil && calls == 0) && got2 != (dupTag{X: 7, Y: 8}) {
		t.Errorf("dupTag params [7,8]: err=%v calls=%d got %+v; want {X:7 Y:8} (or InvalidParams and no call)", err, calls, got2)
	}
}
