// Finding 2 (C18): a Content-Type that declares a non-UTF-8 charset slips past
// the 415 check when its parameter list is malformed, and the handler runs.
// mime.ParseMediaType returns ("application/json", nil, ErrInvalidMediaParameter)
// for such headers; the bridge discards the error and sees no charset.
//
// Copy to: jhttp/finding_2_test.go
// Run:     go test -vet=off -timeout 120s -count=1 -run TestFinding2 ./jhttp/
package jhttp_test

import (
	"context"
	"io"
	"net/http"
	"net/http/httptest"
	"strings"
	"sync/atomic"
	"testing"

	"github.com/creachadair/jrpc2/handler"
	"github.com/creachadair/jrpc2/jhttp"
)

func TestFinding2_CharsetBypass(t *testing.T) {
	var calls int32
	b := jhttp.NewBridge(handler.Map{"x": handler.New(func(context.Context) int {
		atomic.AddInt32(&calls, 1)
		return 1
	})}, nil)
	defer b.Close()
	hs := httptest.NewServer(b)
	defer hs.Close()

	for _, ct := range []string{
		"application/json; charset=utf-16", // control: 415
		"application/json; charset=utf-16; x",
		"application/json; charset=latin1; =",
	} {
		atomic.StoreInt32(&calls, 0)
		req, _ := http.NewRequest("POST", hs.URL, strings.NewReader(`{"jsonrpc":"2.0","id":1,"method":"x"}`))
		req.Header.Set("Content-Type", ct)
		rsp, err := http.DefaultClient.Do(req)
		if err != nil {
			t.Fatal(err)
		}
		body, _ := io.ReadAll(rsp.Body)
		rsp.Body.Close()
		if rsp.StatusCode != http.StatusUnsupportedMediaType || atomic.LoadInt32(&calls) != 0 {
			t.Errorf("Content-Type %q: status=%d handler calls=%d body=%q; want 415 and no call",
				ct, rsp.StatusCode, atomic.LoadInt32(&calls), body)
		}
	}
}
