// Finding 3 (C18): members without a method are statically invalid (a plain
// server answers them with -32600 "empty method name"), but ParseRequests does
// not flag them, so the bridge forwards them through its client.
//   - without an id they go out as notifications: the HTTP caller gets 204 /
//     the member is silently missing from the batch reply;
//   - with an id and a push-enabled bridge server, the server takes the
//     method-less message for a stray callback reply and drops it, so the
//     HTTP request is never answered.
//
// Copy to: jhttp/finding_3_test.go
// Run:     go test -vet=off -timeout 120s -count=1 -run TestFinding3 ./jhttp/
package jhttp_test

import (
	"context"
	"encoding/json"
	"io"
	"net/http"
	"net/http/httptest"
	"strings"
	"testing"
	"time"

	"github.com/creachadair/jrpc2"
	"github.com/creachadair/jrpc2/handler"
	"github.com/creachadair/jrpc2/jhttp"
)

func f3post(t *testing.T, url, body string) (int, string, error) {
	t.Helper()
	ctx, cancel := context.WithTimeout(context.Background(), time.Second)
	defer cancel()
	req, _ := http.NewRequestWithContext(ctx, "POST", url, strings.NewReader(body))
	req.Header.Set("Content-Type", "application/json")
	rsp, err := http.DefaultClient.Do(req)
	if err != nil {
		return 0, "", err
	}
	defer rsp.Body.Close()
	bits, _ := io.ReadAll(rsp.Body)
	return rsp.StatusCode, string(bits), nil
}

func TestFinding3_NoMethodNoID(t *testing.T) {
	b := jhttp.NewBridge(handler.Map{"x": handler.New(func(context.Context) int { return 1 })}, nil)
	defer b.Close()
	hs := httptest.NewServer(b)
	defer hs.Close()

	for _, body := range []string{
		`{"jsonrpc":"2.0"}`,
		`{"jsonrpc":"2.0","method":""}`,
		`{"jsonrpc":"2.0","result":1}`,
	} {
		code, out, err := f3post(t, hs.URL, body)
		if err != nil {
			t.Fatal(err)
		}
		var rsp struct {
			Error *jrpc2.Error `json:"error"`
		}
		json.Unmarshal([]byte(out), &rsp)
		if code != 200 || rsp.Error == nil || rsp.Error.Code != jrpc2.InvalidRequest {
			t.Errorf("body %s: status=%d body=%q; want 200 with an invalid-request error object", body, code, out)
		}
	}

	// In a batch the invalid member simply vanishes from the reply.
	code, out, err := f3post(t, hs.URL, `[{"jsonrpc":"2.0"},{"jsonrpc":"2.0","id":1,"method":"x"}]`)
	if err != nil {
		t.Fatal(err)
	}
	var arr []json.RawMessage
	if json.Unmarshal([]byte(out), &arr) != nil || len(arr) != 2 {
		t.Errorf("batch with one invalid member and one call: status=%d body=%q; want an array of 2 responses", code, out)
	}
}

func TestFinding3_NoMethodWithIDPushServer(t *testing.T) {
	b := jhttp.NewBridge(handler.Map{"x": handler.New(func(context.Context) int { return 1 })},
		&jhttp.BridgeOptions{Server: &jrpc2.ServerOptions{AllowPush: true}})
	defer b.Close()
	hs := httptest.NewServer(b)
	defer hs.Close()

	code, out, err := f3post(t, hs.URL, `{"jsonrpc":"2.0","id":7}`)
	if err != nil {
		t.Fatalf("no HTTP response within 1s: %v", err)
	}
	if code != 200 || !strings.Contains(out, `"id":7`) || !strings.Contains(out, `"error"`) {
		t.Errorf("status=%d body=%q; want 200 with an error object for id 7", code, out)
	}
}
