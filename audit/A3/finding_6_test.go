// AUDIT finding 6 (property C10).
// Copy to: the repository root (package directory of github.com/creachadair/jrpc2).
// Run:     go test -vet=off -timeout 120s -count=1 -run 'TestAuditF6_' .
//
// The client's callback adapter (opts.go: handleCallback) discards the error
// of rsp.toJSON ("bits, _ := rsp.toJSON()") and handleRequestLocked sends the
// result unconditionally. If the OnCallback handler returns a *jrpc2.Error
// whose Data is not valid JSON, marshalling fails, bits is nil, and the client
// calls Send(nil): an empty record, not a JSON-RPC message. The server answers
// it with a parse error for id null, and the callback itself never gets a
// reply. (The server's own deliver path returns the encoding error instead of
// sending.)
package jrpc2_test

import (
	"context"
	"encoding/json"
	"sync"
	"testing"
	"time"

	"github.com/creachadair/jrpc2"
	"github.com/creachadair/jrpc2/channel"
	"github.com/creachadair/jrpc2/handler"
)

type f6chan struct {
	channel.Channel
	mu    sync.Mutex
	sends [][]byte
}

func (r *f6chan) Send(b []byte) error {
	r.mu.Lock()
	r.sends = append(r.sends, append([]byte(nil), b...))
	r.mu.Unlock()
	return r.Channel.Send(b)
}

func TestAuditF6_ClientSendsEmptyRecord(t *testing.T) {
	cch, sch := channel.Direct()
	rc := &f6chan{Channel: cch}
	srv := jrpc2.NewServer(handler.Map{}, &jrpc2.ServerOptions{AllowPush: true}).Start(sch)
	cli := jrpc2.NewClient(rc, &jrpc2.ClientOptions{
		OnCallback: func(context.Context, *jrpc2.Request) (any, error) {
			return nil, &jrpc2.Error{Code: 7, Message: "failed", Data: json.RawMessage(`{bad`)}
		},
	})
	ctx, cancel := context.WithTimeout(context.Background(), 300*time.Millisecond)
	defer cancel()
	_, err := srv.Callback(ctx, "cb", nil)
	cli.Close()
	srv.Wait()

	rc.mu.Lock()
	defer rc.mu.Unlock()
	if len(rc.sends) == 0 {
		t.Logf("nothing sent; Callback returned %v", err)
	}
	for _, s := range rc.sends {
		var v map[string]json.RawMessage
		if json.Unmarshal(s, &v) != nil {
			t.Errorf("the client passed %q to Send: not a JSON-RPC message (Callback returned %v)", s, err)
		}
	}
}
