// AUDIT finding 2 (property C08).
// Copy to: the repository root (package directory of github.com/creachadair/jrpc2).
// Run:     go test -vet=off -timeout 120s -count=1 -run 'TestAuditF2_TwoWaitersAndRestart' .
//
// WaitStatus documents that once it has returned the server may be started
// again. If two goroutines wait for the same server (say a monitor that logs
// the exit status, and the owner that stops, waits and restarts), the owner's
// restart executes s.wg.Add(2) while the other waiter has been woken but has
// not yet left s.wg.Wait: the runtime panics with "sync: WaitGroup is reused
// before previous Wait has returned". (The late waiter also reads s.err and
// s.inq of the *new* generation without synchronisation, so it can equally
// report a flag-less status or hit the "s.inq is not empty at shutdown"
// panic.) GOMAXPROCS(1) only makes the interleaving deterministic.
package jrpc2_test

import (
	"fmt"
	"net"
	"runtime"
	"testing"

	"github.com/creachadair/jrpc2"
	"github.com/creachadair/jrpc2/channel"
	"github.com/creachadair/jrpc2/handler"
)

func TestAuditF2_TwoWaitersAndRestart(t *testing.T) {
	defer runtime.GOMAXPROCS(runtime.GOMAXPROCS(1))
	srv := jrpc2.NewServer(handler.Map{}, nil)
	for i := 0; i < 200 && !t.Failed(); i++ {
		c1, c2 := net.Pipe()
		srv.Start(channel.Line(c2, c2))

		// A monitoring goroutine reports the exit status ...
		mon := make(chan string, 1)
		go func() {
			defer func() {
				if p := recover(); p != nil {
					mon <- fmt.Sprint("PANIC: ", p)
				}
			}()
			st := srv.WaitStatus()
			mon <- fmt.Sprintf("%+v", st)
		}()
		runtime.Gosched() // let the monitor reach wg.Wait

		// ... while the owner stops, waits, and (as documented) restarts.
		srv.Stop()
		if st := srv.WaitStatus(); !st.Stopped {
			t.Fatalf("iteration %d: owner status %+v, want Stopped", i, st)
		}
		c3, c4 := net.Pipe()
		srv.Start(channel.Line(c4, c4))

		if got := <-mon; got != "{Err:<nil> Stopped:true Closed:false}" {
			t.Errorf("iteration %d: second waiter got %s; want {Err:<nil> Stopped:true Closed:false}", i, got)
		}
		srv.Stop()
		srv.WaitStatus()
		c1.Close()
		c3.Close()
	}
}
