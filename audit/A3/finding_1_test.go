// AUDIT finding 1 (property C08).
// Copy to: the repository root (package directory of github.com/creachadair/jrpc2).
// Run:     go test -vet=off -timeout 120s -count=1 -run 'TestAuditF1_LogResponseNilContext' .
//
// A malformed / unrunnable inbound request (empty method, bad version, bad
// params, duplicate id) makes the server call RPCLogger.LogResponse with a nil
// context.Context. A logger that does what the RPCLogger documentation offers
// ("the inbound request can be recovered from the context using
// jrpc2.InboundRequest") dereferences the nil interface and panics on a server
// goroutine, i.e. one malformed record from the peer kills the process.
package jrpc2_test

import (
	"context"
	"fmt"
	"sync"
	"testing"
	"time"

	"github.com/creachadair/jrpc2"
	"github.com/creachadair/jrpc2/channel"
	"github.com/creachadair/jrpc2/handler"
)

// ctxLogger is an RPCLogger that does what the RPCLogger documentation says a
// logger may do: recover the inbound request from the context it is given.
type ctxLogger struct {
	mu     sync.Mutex
	panics []string
	nilctx int
}

func (l *ctxLogger) LogRequest(ctx context.Context, req *jrpc2.Request) {}

func (l *ctxLogger) LogResponse(ctx context.Context, rsp *jrpc2.Response) {
	// Without this recover the panic below is raised on a server goroutine and
	// kills the whole process.
	defer func() {
		if p := recover(); p != nil {
			l.mu.Lock()
			l.panics = append(l.panics, fmt.Sprint(p))
			l.mu.Unlock()
		}
	}()
	if ctx == nil {
		l.mu.Lock()
		l.nilctx++
		l.mu.Unlock()
	}
	_ = jrpc2.InboundRequest(ctx) // documented use of the context
}

func TestAuditF1_LogResponseNilContext(t *testing.T) {
	for _, in := range []string{
		`{"jsonrpc":"2.0","id":1}`,                                                      // empty method
		`{"jsonrpc":"1.0","id":2,"method":"X"}`,                                         // bad version
		`{"jsonrpc":"2.0","id":3,"method":"X","params":"bad"}`,                          // bad params
		`[{"jsonrpc":"2.0","id":4,"method":"X"},{"jsonrpc":"2.0","id":4,"method":"X"}]`, // duplicate ids
	} {
		lg := new(ctxLogger)
		cch, sch := channel.Direct()
		srv := jrpc2.NewServer(handler.Map{
			"X": handler.New(func(context.Context) (string, error) { return "ok", nil }),
		}, &jrpc2.ServerOptions{RPCLog: lg}).Start(sch)

		if err := cch.Send([]byte(in)); err != nil {
			t.Fatalf("Send: %v", err)
		}
		done := make(chan []byte, 1)
		go func() { b, _ := cch.Recv(); done <- b }()
		select {
		case b := <-done:
			t.Logf("input %s -> reply %s", in, b)
		case <-time.After(2 * time.Second):
			t.Errorf("input %s: no reply", in)
		}
		cch.Close()
		srv.Wait()

		lg.mu.Lock()
		if lg.nilctx != 0 {
			t.Errorf("input %s: LogResponse was called %d time(s) with a nil context", in, lg.nilctx)
		}
		for _, p := range lg.panics {
			t.Errorf("input %s: jrpc2.InboundRequest(ctx) inside LogResponse panicked: %s", in, p)
		}
		lg.mu.Unlock()
	}
}
