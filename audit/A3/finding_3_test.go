// AUDIT finding 3 (property C08).
// Copy to: the repository root (package directory of github.com/creachadair/jrpc2).
// Run:     go test -vet=off -timeout 120s -count=1 -run 'TestAuditF3' .
//
// channel.Direct (the pipe under server.NewLocal): Close of one end only closes
// that end's outbound Go channel. A Send by the other end towards a peer that
// has stopped receiving is neither failed nor unblocked - it blocks for ever,
// and both Server and Client call Send while holding their mutex.
//
//	(b) Peer close: a peer that sends a call and closes its end without reading
//	    the reply wedges the server: deliver blocks in Send holding s.mu, the
//	    reader that saw EOF cannot take s.mu to stop the server, so WaitStatus
//	    never returns and Stop blocks for ever as well.
//	(a) Stop: after Server.Stop the server's reader consumes one more record and
//	    exits; a second client Send issued before the client's reader has taken
//	    the lock to record EOF blocks for ever holding c.mu, so every later
//	    client call and Client.Close (hence Local.Close) hang, and the
//	    goroutines are left behind.
package jrpc2_test

import (
	"context"
	"testing"
	"time"

	"github.com/creachadair/jrpc2"
	"github.com/creachadair/jrpc2/channel"
	"github.com/creachadair/jrpc2/handler"
	"github.com/creachadair/jrpc2/server"
)

func TestAuditF3a_StopWedgesLocalClient(t *testing.T) {
	gate := make(chan struct{})
	entered := make(chan struct{})
	loc := server.NewLocal(handler.Map{
		"N": func(context.Context, *jrpc2.Request) (any, error) { return nil, nil },
	}, &server.LocalOptions{
		Server: &jrpc2.ServerOptions{AllowPush: true},
		Client: &jrpc2.ClientOptions{OnNotify: func(*jrpc2.Request) {
			close(entered)
			<-gate
		}},
	})
	ctx := context.Background()

	// 1. A server notification parks the client's OnNotify hook (which the
	// client runs while holding its lock).
	if err := loc.Server.Notify(ctx, "hello", nil); err != nil {
		t.Fatal(err)
	}
	<-entered

	// 2. Two client notifications queue up behind it.
	res := make(chan error, 2)
	go func() { res <- loc.Client.Notify(ctx, "N", nil) }()
	time.Sleep(30 * time.Millisecond)
	go func() { res <- loc.Client.Notify(ctx, "N", nil) }()
	time.Sleep(30 * time.Millisecond)

	// 3. The server is stopped.
	loc.Server.Stop()
	time.Sleep(30 * time.Millisecond)

	// 4. The hook returns.
	close(gate)

	st := make(chan jrpc2.ServerStatus, 1)
	go func() { st <- loc.Server.WaitStatus() }()
	select {
	case s := <-st:
		t.Logf("server status: %+v", s)
	case <-time.After(time.Second):
		t.Errorf("WaitStatus did not return after Stop")
	}

	for i := 0; i < 2; i++ {
		select {
		case err := <-res:
			t.Logf("client Notify %d returned: %v", i, err)
		case <-time.After(time.Second):
			t.Errorf("client Notify is blocked forever in Send after the server stopped")
		}
	}
	closed := make(chan struct{})
	go func() { loc.Client.Close(); close(closed) }()
	select {
	case <-closed:
	case <-time.After(time.Second):
		t.Errorf("Client.Close is blocked forever after the server stopped")
	}
}

func TestAuditF3b_PeerCloseWithUnreadReplyWedgesServer(t *testing.T) {
	ran := make(chan struct{})
	cch, sch := channel.Direct()
	srv := jrpc2.NewServer(handler.Map{
		"X": func(context.Context, *jrpc2.Request) (any, error) { close(ran); return "ok", nil },
	}, nil).Start(sch)

	cch.Send([]byte(`{"jsonrpc":"2.0","id":1,"method":"X"}`))
	<-ran
	time.Sleep(50 * time.Millisecond) // the reply is now being sent
	cch.Close()                       // the peer goes away without reading it

	st := make(chan jrpc2.ServerStatus, 1)
	go func() { st <- srv.WaitStatus() }()
	select {
	case s := <-st:
		t.Logf("server status: %+v", s)
	case <-time.After(time.Second):
		t.Errorf("peer closed, but WaitStatus never returns")
		stopped := make(chan struct{})
		go func() { srv.Stop(); close(stopped) }()
		select {
		case <-stopped:
		case <-time.After(time.Second):
			t.Errorf("... and Stop blocks forever too")
		}
	}
}
