// AUDIT finding 4 (property C09).
// Copy to: the repository root (package directory of github.com/creachadair/jrpc2).
// Run:     go test -vet=off -timeout 120s -count=1 -run 'TestAuditF4_' .
//
// Server.pushReq validates neither the method name nor the parameters (the
// client-side API does: marshalParams; and the server rejects an empty method
// inbound). With method == "" jmessage.toJSON emits no "method" member, so
// Callback(ctx, "", nil) does not transmit a request but the reply-shaped
// object {"jsonrpc":"2.0","id":N}, where N comes from the server's callback
// counter (1, 2, ...) - the same id space the client uses for its own calls.
// The client takes it for the answer to its own pending call N and completes
// that call with an empty result, while the handler is still running; Notify
// with an empty method transmits {"jsonrpc":"2.0"}. Scalar params (e.g. 42)
// likewise go out as "params":42, which is not a valid request either.
package jrpc2_test

import (
	"context"
	"encoding/json"
	"sync"
	"testing"
	"time"

	"github.com/creachadair/jrpc2"
	"github.com/creachadair/jrpc2/channel"
	"github.com/creachadair/jrpc2/handler"
)

type f4chan struct {
	channel.Channel
	mu    sync.Mutex
	sends []string
}

func (r *f4chan) Send(b []byte) error {
	r.mu.Lock()
	r.sends = append(r.sends, string(b))
	r.mu.Unlock()
	return r.Channel.Send(b)
}

func TestAuditF4_PushWithoutMethodIsMistakenForReply(t *testing.T) {
	release := make(chan struct{})
	cbDone := make(chan error, 1)
	cch, sch := channel.Direct()
	rec := &f4chan{Channel: sch}
	srv := jrpc2.NewServer(handler.Map{
		"Slow": func(ctx context.Context, req *jrpc2.Request) (any, error) {
			cctx, cancel := context.WithTimeout(ctx, 300*time.Millisecond)
			defer cancel()
			_, err := jrpc2.ServerFromContext(ctx).Callback(cctx, "", nil)
			cbDone <- err
			<-release
			return "real answer", nil
		},
	}, &jrpc2.ServerOptions{AllowPush: true}).Start(rec)
	cli := jrpc2.NewClient(cch, &jrpc2.ClientOptions{
		OnCallback: func(context.Context, *jrpc2.Request) (any, error) { return "cb", nil },
	})
	defer func() { cli.Close(); srv.Wait() }()

	var got string
	err := cli.CallResult(context.Background(), "Slow", nil, &got) // the client's call has id 1
	cberr := <-cbDone
	close(release)

	rec.mu.Lock()
	first := rec.sends[0]
	rec.mu.Unlock()
	var obj map[string]json.RawMessage
	json.Unmarshal([]byte(first), &obj)
	if _, ok := obj["method"]; !ok {
		t.Errorf("Callback transmitted %s, which is not a request (Callback returned %v)", first, cberr)
	}
	if got != "real answer" || err != nil {
		t.Errorf("the client's own call completed with (%q, %v) while its handler was still running; want the handler's answer", got, err)
	}
}
