// AUDIT finding 5 (property C09).
// Copy to: the repository root (package directory of github.com/creachadair/jrpc2).
// Run:     go test -vet=off -timeout 120s -count=1 -run 'TestAuditF5_' .
//
// Server.Callback passes the error of the client's reply through filterError,
// which turns any *Error with code -32097 / -32096 into the bare
// context.Canceled / context.DeadlineExceeded values. So when the client's
// callback handler itself fails with such an error (for instance because a
// downstream call of its own timed out), Callback returns
// context.DeadlineExceeded although the caller's context is alive and the
// server is running: the client failure is not reported as *Error (contrary to
// the Callback documentation too), and the caller cannot tell it from its own
// context ending.
package jrpc2_test

import (
	"context"
	"errors"
	"testing"

	"github.com/creachadair/jrpc2"
	"github.com/creachadair/jrpc2/handler"
	"github.com/creachadair/jrpc2/server"
)

func TestAuditF5_ClientFailureNotReportedAsError(t *testing.T) {
	loc := server.NewLocal(handler.Map{}, &server.LocalOptions{
		Server: &jrpc2.ServerOptions{AllowPush: true},
		Client: &jrpc2.ClientOptions{OnCallback: func(context.Context, *jrpc2.Request) (any, error) {
			return nil, context.DeadlineExceeded // the client's own downstream timeout
		}},
	})
	defer loc.Close()

	ctx := context.Background() // never ends
	_, err := loc.Server.Callback(ctx, "cb", nil)
	var je *jrpc2.Error
	if !errors.As(err, &je) {
		t.Errorf("Callback returned %T (%v) for a failure reported by the client; want *jrpc2.Error (ctx.Err() = %v)", err, err, ctx.Err())
	}
}
