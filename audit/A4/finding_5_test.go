// Finding 5 (C13): ParseRequests does not flag members that have no method
// (missing, null or empty "method", or response-shaped objects). A Server
// answers every one of them with -32600 "empty method name", but ParseRequests
// returns Error == nil and Method == "" for them, and ToRequest() happily
// builds a *Request with an empty method.
//
// Copy to: (repository root)/finding_5_test.go
// Run:     go test -vet=off -timeout 120s -count=1 -run TestAuditParseRequestsNoMethod .
package jrpc2_test

import (
	"context"
	"encoding/json"
	"testing"

	"github.com/creachadair/jrpc2"
	"github.com/creachadair/jrpc2/channel"
	"github.com/creachadair/jrpc2/handler"
)

func TestAuditParseRequestsNoMethod(t *testing.T) {
	for _, in := range []string{
		`{"jsonrpc":"2.0","id":7}`,
		`{"jsonrpc":"2.0","id":7,"method":""}`,
		`{"jsonrpc":"2.0","id":7,"method":null}`,
		`{"jsonrpc":"2.0","id":7,"result":1}`,
		`{"jsonrpc":"2.0","id":7,"params":[1]}`,
	} {
		// What a Server answers for this message.
		cch, sch := channel.Direct()
		srv := jrpc2.NewServer(handler.Map{
			"ok": handler.New(func(context.Context) (int, error) { return 1, nil }),
		}, nil).Start(sch)
		if err := cch.Send([]byte(in)); err != nil {
			t.Fatal(err)
		}
		raw, err := cch.Recv()
		if err != nil {
			t.Fatal(err)
		}
		cch.Close()
		srv.Wait()
		var reply struct {
			Error *jrpc2.Error `json:"error"`
		}
		if err := json.Unmarshal(raw, &reply); err != nil || reply.Error == nil {
			t.Fatalf("server reply %s: not an error reply (%v)", raw, err)
		}

		reqs, err := jrpc2.ParseRequests([]byte(in))
		if err != nil || len(reqs) != 1 {
			t.Fatalf("ParseRequests(%s): %v, %d entries", in, err, len(reqs))
		}
		if reqs[0].Error == nil {
			t.Errorf("ParseRequests(%s): Error=nil Method=%q, but a Server answers %s", in, reqs[0].Method, raw)
		} else if reqs[0].Error.Code != reply.Error.Code {
			t.Errorf("ParseRequests(%s): code %d, Server answers %d", in, reqs[0].Error.Code, reply.Error.Code)
		}
	}
}
