// Finding 12 (C13, minor): jrpc2.Error tags Message with `omitempty`, so an
// error whose text is empty - a handler returning errors.New(""), any error
// type whose Error() is "", or &jrpc2.Error{Code: n} - is emitted as
// "error":{"code":-32098} without the "message" member that JSON-RPC 2.0
// (section 5.1) requires of every error object. An independent validator
// rejects the reply.
//
// Copy to: (repository root)/finding_12_test.go
// Run:     go test -vet=off -timeout 120s -count=1 -run TestAuditErrorWithoutMessage .
package jrpc2_test

import (
	"context"
	"encoding/json"
	"errors"
	"testing"

	"github.com/creachadair/jrpc2"
	"github.com/creachadair/jrpc2/channel"
	"github.com/creachadair/jrpc2/handler"
)

func TestAuditErrorWithoutMessage(t *testing.T) {
	cch, sch := channel.Direct()
	srv := jrpc2.NewServer(handler.Map{
		"plain": func(context.Context, *jrpc2.Request) (any, error) { return nil, errors.New("") },
		"coded": func(context.Context, *jrpc2.Request) (any, error) { return nil, &jrpc2.Error{Code: 5} },
	}, nil).Start(sch)
	defer func() { cch.Close(); srv.Wait() }()

	for _, m := range []string{"plain", "coded"} {
		if err := cch.Send([]byte(`{"jsonrpc":"2.0","id":1,"method":"` + m + `"}`)); err != nil {
			t.Fatal(err)
		}
		raw, err := cch.Recv()
		if err != nil {
			t.Fatal(err)
		}
		var rsp struct {
			Error map[string]json.RawMessage `json:"error"`
		}
		if err := json.Unmarshal(raw, &rsp); err != nil || rsp.Error == nil {
			t.Fatalf("%s: reply %s: %v", m, raw, err)
		}
		var msg string
		if v, ok := rsp.Error["message"]; !ok || json.Unmarshal(v, &msg) != nil {
			t.Errorf("%s: reply %s: error object has no \"message\" string member", m, raw)
		}
	}
}
