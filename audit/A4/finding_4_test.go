// Finding 4 (C13): Server.Notify / Server.Callback (pushReq) marshal params but,
// unlike Client.marshalParams, never check that they are an array or object.
// A pushed request with a scalar parameter value goes onto the wire as
// "params":5, which is not a JSON-RPC 2.0 request and which the library's own
// parser (ParseRequests / jmessage.parseJSON) rejects with -32600.
//
// Copy to: (repository root)/finding_4_test.go
// Run:     go test -vet=off -timeout 120s -count=1 -run TestAuditPushScalarParams .
package jrpc2_test

import (
	"context"
	"testing"
	"time"

	"github.com/creachadair/jrpc2"
	"github.com/creachadair/jrpc2/channel"
	"github.com/creachadair/jrpc2/handler"
)

func TestAuditPushScalarParams(t *testing.T) {
	cch, sch := channel.Direct()
	srv := jrpc2.NewServer(handler.Map{}, &jrpc2.ServerOptions{AllowPush: true}).Start(sch)
	defer func() { cch.Close(); srv.Wait() }()

	for _, params := range []any{5, "str", true, 2.5} {
		errc := make(chan error, 1)
		go func() { errc <- srv.Notify(context.Background(), "note", params) }()
		got := make(chan []byte, 1)
		go func() { m, _ := cch.Recv(); got <- m }()

		var wire []byte
		select {
		case wire = <-got:
			<-errc
		case err := <-errc:
			if err != nil {
				// Refused without sending: the correct outcome. Unblock the
				// reader goroutine for the next round.
				go srv.Notify(context.Background(), "flush", nil)
				<-got
				continue
			}
			wire = <-got
		case <-time.After(2 * time.Second):
			t.Fatal("timeout")
		}
		reqs, err := jrpc2.ParseRequests(wire)
		if err != nil {
			t.Fatalf("ParseRequests(%s): %v", wire, err)
		}
		for _, r := range reqs {
			if r.Error != nil {
				t.Errorf("Server.Notify(%#v) emitted %s, which the library's own parser rejects: %v", params, wire, r.Error)
			}
		}
	}
}
