// Finding 3 (C11): RawJSON does not keep records apart. Its documentation says a
// record is "a complete JSON value" and "no padding or other separation is
// added"; two consecutive number records therefore fuse into one record that
// was never sent, and the legal record `null` is delivered as an empty record.
// (Each received record is copied here, so this is independent of finding 2.)
//
// Copy to: channel/finding_3_test.go
// Run:     go test -vet=off -timeout 120s -count=1 -run TestAuditRawJSON ./channel/
package channel_test

import (
	"bytes"
	"io"
	"testing"

	"github.com/creachadair/jrpc2/channel"
)

type nopWC3 struct{ io.Writer }

func (nopWC3) Close() error { return nil }

func rawRoundTrip(t *testing.T, recs []string) {
	t.Helper()
	var wire bytes.Buffer
	snd := channel.RawJSON(bytes.NewReader(nil), nopWC3{&wire})
	for _, r := range recs {
		if err := snd.Send([]byte(r)); err != nil {
			t.Fatalf("Send(%q): %v", r, err)
		}
	}
	rcv := channel.RawJSON(bytes.NewReader(wire.Bytes()), nopWC3{io.Discard})
	var got []string
	for {
		m, err := rcv.Recv()
		if err == io.EOF {
			break
		} else if err != nil {
			t.Fatalf("Recv: %v", err)
		}
		got = append(got, string(m)) // copied
	}
	if len(got) != len(recs) {
		t.Fatalf("wire %q: got %d records %q, want %d records %q", wire.String(), len(got), got, len(recs), recs)
	}
	for i, r := range recs {
		if got[i] != r {
			t.Errorf("wire %q: record %d: got %q, want %q", wire.String(), i, got[i], r)
		}
	}
}

func TestAuditRawJSONNumbersFuse(t *testing.T) {
	rawRoundTrip(t, []string{`1`, `2`, `{"a":1}`})
}

func TestAuditRawJSONNullBecomesEmpty(t *testing.T) {
	rawRoundTrip(t, []string{`{}`, `null`, `{"a":1}`})
}
