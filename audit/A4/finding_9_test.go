// Finding 9 (C12, minor): hdr.Recv parses Content-Length with strconv.Atoi,
// which also accepts a sign. "Content-Length: +3" and "Content-Length: -0" are
// not runs of decimal digits (the framing's documentation: "The length (nbytes)
// is encoded as decimal digits"; RFC 9110: 1*DIGIT) but are accepted and yield
// records instead of "invalid content-length".
//
// Copy to: channel/finding_9_test.go
// Run:     go test -vet=off -timeout 120s -count=1 -run TestAuditHdrSignedLength ./channel/
package channel_test

import (
	"io"
	"strings"
	"testing"

	"github.com/creachadair/jrpc2/channel"
)

type nopWC9 struct{ io.Writer }

func (nopWC9) Close() error { return nil }

func TestAuditHdrSignedLength(t *testing.T) {
	for _, s := range []string{
		"Content-Length: +3\r\n\r\nabc",
		"Content-Length: -0\r\n\r\n",
		"Content-Length: +0\r\n\r\n",
	} {
		ch := channel.Header("")(strings.NewReader(s), nopWC9{io.Discard})
		if msg, err := ch.Recv(); err == nil {
			t.Errorf("stream %q: got record %q, nil; want an invalid content-length error", s, msg)
		}
	}
}
