// Finding 10 (C19): two defaults that do not fit together. The default Getter
// parser (ParseBasic) always produces a parameter object, also for a URL
// without a query, so the call carries "params":{}. A method built by
// handler.New from a function without a parameter (func(ctx) (T, error))
// rejects any params with -32602 "no parameters accepted". Hence a default
// Getter can never answer 200 for such a method, although the same method
// works over a direct connection (and with ParseQuery, which returns nil
// params for an empty query).
//
// Copy to: jhttp/finding_10_test.go
// Run:     go test -vet=off -timeout 120s -count=1 -run TestAuditGetterNoParams ./jhttp/
package jhttp_test

import (
	"context"
	"io"
	"net/http"
	"net/http/httptest"
	"testing"

	"github.com/creachadair/jrpc2/handler"
	"github.com/creachadair/jrpc2/jhttp"
	"github.com/creachadair/jrpc2/server"
)

func TestAuditGetterNoParams(t *testing.T) {
	mux := handler.Map{
		"ping": handler.New(func(context.Context) (string, error) { return "pong", nil }),
	}

	// Direct connection: fine.
	loc := server.NewLocal(mux, nil)
	var direct string
	if err := loc.Client.CallResult(context.Background(), "ping", nil, &direct); err != nil {
		t.Fatalf("direct call: %v", err)
	}
	loc.Close()

	// Default Getter: the same method via GET /ping.
	g := jhttp.NewGetter(mux, nil)
	defer g.Close()
	hsrv := httptest.NewServer(g)
	defer hsrv.Close()
	rsp, err := http.Get(hsrv.URL + "/ping")
	if err != nil {
		t.Fatal(err)
	}
	body, _ := io.ReadAll(rsp.Body)
	rsp.Body.Close()
	if rsp.StatusCode != http.StatusOK || string(body) != `"pong"` {
		t.Errorf("GET /ping: status %d body %s; want 200 %q (direct call returned %q)", rsp.StatusCode, body, `"pong"`, direct)
	}
}
