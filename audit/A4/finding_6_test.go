// Finding 6 (C13): with the (valid UTF-8) method name "", Client.Call,
// Client.Notify and Server.Notify/Callback neither refuse nor encode the name:
// jmessage.toJSON uses M != "" to decide that the message is a request, so the
// "method" member (and the params) are dropped and the wire carries
// {"jsonrpc":"2.0","id":1} resp. {"jsonrpc":"2.0"} - not a JSON-RPC message at
// all. The params the caller supplied are silently lost.
//
// Copy to: (repository root)/finding_6_test.go
// Run:     go test -vet=off -timeout 120s -count=1 -run TestAuditEmptyMethodOnWire .
package jrpc2_test

import (
	"context"
	"encoding/json"
	"testing"
	"time"

	"github.com/creachadair/jrpc2"
	"github.com/creachadair/jrpc2/channel"
	"github.com/creachadair/jrpc2/handler"
)

func checkRequestShape(t *testing.T, who string, send func() error, recv func() ([]byte, error)) {
	t.Helper()
	errc := make(chan error, 1)
	go func() { errc <- send() }()
	got := make(chan []byte, 1)
	go func() { m, _ := recv(); got <- m }()
	select {
	case err := <-errc:
		if err != nil {
			return // refused: fine
		}
		select {
		case wire := <-got:
			verifyShape(t, who, wire)
		case <-time.After(time.Second):
			t.Errorf("%s: reported success but sent nothing", who)
		}
	case wire := <-got:
		verifyShape(t, who, wire)
	case <-time.After(2 * time.Second):
		t.Fatalf("%s: timeout", who)
	}
}

func verifyShape(t *testing.T, who string, wire []byte) {
	t.Helper()
	var obj map[string]json.RawMessage
	if err := json.Unmarshal(wire, &obj); err != nil {
		t.Errorf("%s: wire %q: %v", who, wire, err)
		return
	}
	if m, ok := obj["method"]; !ok || string(m) != `""` {
		t.Errorf("%s: emitted %s: a request without a \"method\" member", who, wire)
	}
	if _, ok := obj["params"]; !ok {
		t.Errorf("%s: emitted %s: the parameters [1,2] were dropped", who, wire)
	}
}

func TestAuditEmptyMethodOnWire(t *testing.T) {
	ctx, cancel := context.WithCancel(context.Background())
	defer cancel()

	{
		cch, sch := channel.Direct()
		cli := jrpc2.NewClient(cch, nil)
		checkRequestShape(t, "Client.Notify", func() error { return cli.Notify(ctx, "", []int{1, 2}) }, sch.Recv)
	}
	{
		cch, sch := channel.Direct()
		cli := jrpc2.NewClient(cch, nil)
		checkRequestShape(t, "Client.Call", func() error {
			cctx, cancel := context.WithTimeout(ctx, 200*time.Millisecond)
			defer cancel()
			cli.Call(cctx, "", []int{1, 2})
			return nil
		}, sch.Recv)
	}
	{
		cch, sch := channel.Direct()
		srv := jrpc2.NewServer(handler.Map{}, &jrpc2.ServerOptions{AllowPush: true}).Start(sch)
		checkRequestShape(t, "Server.Notify", func() error { return srv.Notify(ctx, "", []int{1, 2}) }, cch.Recv)
	}
}
