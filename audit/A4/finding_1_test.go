// Finding 1 (C11): split.Send builds the outgoing frame with append(msg, split),
// which writes the terminator into the caller's backing array whenever
// cap(msg) > len(msg). Sending records that are adjacent sub-slices of one
// buffer (a normal way to pipeline) therefore corrupts the next record: it now
// starts with the split byte, so the next Send is refused and the receiver
// never sees it. Send must not modify memory outside (or inside) msg.
//
// Copy to: channel/finding_1_test.go
// Run:     go test -vet=off -timeout 120s -count=1 -run TestAuditSplitSendClobbers ./channel/
package channel_test

import (
	"bytes"
	"io"
	"testing"

	"github.com/creachadair/jrpc2/channel"
)

type nopWC struct{ io.Writer }

func (nopWC) Close() error { return nil }

func TestAuditSplitSendClobbers(t *testing.T) {
	// Three records carved out of one backing array, sent pipelined.
	backing := []byte("aaabbbccc")
	recs := [][]byte{backing[0:3], backing[3:6], backing[6:9]}
	want := []string{"aaa", "bbb", "ccc"}

	var wire bytes.Buffer
	snd := channel.Line(bytes.NewReader(nil), nopWC{&wire})
	for i, r := range recs {
		if err := snd.Send(r); err != nil {
			t.Errorf("Send(record %d = %q): unexpected error: %v", i, r, err)
		}
	}
	if got := string(backing); got != "aaabbbccc" {
		t.Errorf("Send modified the caller's memory outside the record: backing = %q", got)
	}
	rcv := channel.Line(bytes.NewReader(wire.Bytes()), nopWC{io.Discard})
	for i, w := range want {
		got, err := rcv.Recv()
		if err != nil || string(got) != w {
			t.Errorf("Recv %d: got %q, %v; want %q, nil", i, got, err, w)
		}
	}
	if got, err := rcv.Recv(); err != io.EOF {
		t.Errorf("final Recv: got %q, %v; want EOF", got, err)
	}
}
