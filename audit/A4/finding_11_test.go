// Finding 11 (C19, minor; the property only demands "valid JSON" here, the
// Getter's own documentation demands "a JSON-RPC error object"): when the call
// fails with the Cancelled or DeadlineExceeded code, Client.Call converts the
// *jrpc2.Error into context.Canceled / context.DeadlineExceeded (filterError),
// and Getter.ServeHTTP marshals that value with encoding/json, which yields
// the body "{}" - code, message and data of the failure are all lost.
//
// Copy to: jhttp/finding_11_test.go
// Run:     go test -vet=off -timeout 120s -count=1 -run TestAuditGetterErrorBody ./jhttp/
package jhttp_test

import (
	"context"
	"encoding/json"
	"io"
	"net/http"
	"net/http/httptest"
	"testing"

	"github.com/creachadair/jrpc2"
	"github.com/creachadair/jrpc2/handler"
	"github.com/creachadair/jrpc2/jhttp"
)

func TestAuditGetterErrorBody(t *testing.T) {
	g := jhttp.NewGetter(handler.Map{
		"slow":   func(context.Context, *jrpc2.Request) (any, error) { return nil, context.DeadlineExceeded },
		"cancel": func(context.Context, *jrpc2.Request) (any, error) { return nil, context.Canceled },
		"coded": func(context.Context, *jrpc2.Request) (any, error) {
			return nil, jrpc2.Errorf(jrpc2.DeadlineExceeded, "backend timed out")
		},
		"plain": func(context.Context, *jrpc2.Request) (any, error) { return nil, io.ErrUnexpectedEOF },
	}, nil)
	defer g.Close()
	hsrv := httptest.NewServer(g)
	defer hsrv.Close()
	for _, m := range []string{"plain", "slow", "cancel", "coded"} {
		rsp, err := http.Get(hsrv.URL + "/" + m)
		if err != nil {
			t.Fatal(err)
		}
		body, _ := io.ReadAll(rsp.Body)
		rsp.Body.Close()
		var e struct {
			Code    *int    `json:"code"`
			Message *string `json:"message"`
		}
		if err := json.Unmarshal(body, &e); err != nil {
			t.Errorf("%s: status %d body %q: not JSON: %v", m, rsp.StatusCode, body, err)
		} else if e.Code == nil {
			t.Errorf("%s: status %d body %s: not a JSON-RPC error object (no code)", m, rsp.StatusCode, body)
		} else {
			t.Logf("%s: status %d body %s", m, rsp.StatusCode, body)
		}
	}
}
