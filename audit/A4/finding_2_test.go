// Finding 2 (C11): Header/StrictHeader/LSP and RawJSON Recv hand out a slice of
// an internal buffer that the NEXT Recv overwrites, so a pipelined receiver that
// keeps the records it received (as Line/Split and Direct allow) finds earlier
// records corrupted. Nothing in the Channel contract says a record is only valid
// until the next Recv.
//
// Copy to: channel/finding_2_test.go
// Run:     go test -vet=off -timeout 120s -count=1 -run TestAuditRecvAliasing ./channel/
package channel_test

import (
	"bytes"
	"io"
	"testing"

	"github.com/creachadair/jrpc2/channel"
)

type nopWC2 struct{ io.Writer }

func (nopWC2) Close() error { return nil }

func pipelineKeep(t *testing.T, name string, f channel.Framing, recs []string) {
	t.Helper()
	var wire bytes.Buffer
	snd := f(bytes.NewReader(nil), nopWC2{&wire})
	for _, r := range recs {
		if err := snd.Send([]byte(r)); err != nil {
			t.Fatalf("%s: Send(%q): %v", name, r, err)
		}
	}
	rcv := f(bytes.NewReader(wire.Bytes()), nopWC2{io.Discard})
	var got [][]byte
	for {
		m, err := rcv.Recv()
		if err == io.EOF && len(m) == 0 {
			break
		} else if err != nil {
			t.Fatalf("%s: Recv: %v", name, err)
		}
		got = append(got, m) // retained, not copied
	}
	if len(got) != len(recs) {
		t.Errorf("%s: got %d records, want %d: %q", name, len(got), len(recs), got)
		return
	}
	for i, r := range recs {
		if string(got[i]) != r {
			t.Errorf("%s: record %d: got %q, want %q", name, i, got[i], r)
		}
	}
}

func TestAuditRecvAliasing(t *testing.T) {
	recs := []string{`{"first":1}`, `{"second":2}`, `{"x":3}`}
	pipelineKeep(t, "Line", channel.Line, recs) // passes: fresh buffer per record
	pipelineKeep(t, "Header", channel.Header("application/json"), recs)
	pipelineKeep(t, "StrictHeader", channel.StrictHeader("application/json"), recs)
	pipelineKeep(t, "LSP", channel.LSP, recs)
	pipelineKeep(t, "RawJSON", channel.RawJSON, recs)
}
