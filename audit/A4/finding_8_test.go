// Finding 8 (C12): the header framings report a record that the end of the
// stream cut off inside its header block - or right after it, before the first
// body byte - as a plain (nil, io.EOF), which is exactly what a clean end of
// stream looks like ("If no further messages are available, it returns nil,
// io.EOF"). Only a cut inside the body yields io.ErrUnexpectedEOF. The torn
// record is thus dropped without a trace: a jrpc2.Server reading such a stream
// exits with a nil (success) status.
//
// Copy to: channel/finding_8_test.go
// Run:     go test -vet=off -timeout 120s -count=1 -run TestAuditHdrTruncat ./channel/
package channel_test

import (
	"context"
	"io"
	"strings"
	"testing"

	"github.com/creachadair/jrpc2"
	"github.com/creachadair/jrpc2/channel"
	"github.com/creachadair/jrpc2/handler"
)

type nopWC8 struct{ io.Writer }

func (nopWC8) Close() error { return nil }

func TestAuditHdrTruncationLooksClean(t *testing.T) {
	const stream = "Content-Type: application/json\r\nContent-Length: 5\r\n\r\nhello"
	for cut := 1; cut < len(stream); cut++ {
		ch := channel.Header("application/json")(strings.NewReader(stream[:cut]), nopWC8{io.Discard})
		msg, err := ch.Recv()
		if err == nil {
			t.Errorf("cut %d: got record %q with nil error", cut, msg)
		} else if err == io.EOF {
			t.Errorf("cut %d: stream %q: torn record reported as a clean io.EOF", cut, stream[:cut])
		}
	}
}

func TestAuditHdrTruncatedServerSucceeds(t *testing.T) {
	// A complete request followed by one whose body never arrives.
	const stream = "Content-Length: 38\r\n\r\n" + `{"jsonrpc":"2.0","id":1,"method":"ok"}` +
		"Content-Length: 38\r\n\r\n"
	var out strings.Builder
	ch := channel.LSP(strings.NewReader(stream), nopWC8{&out})
	srv := jrpc2.NewServer(handler.Map{"ok": handler.New(func(context.Context) (int, error) { return 1, nil })}, nil).Start(ch)
	if err := srv.Wait(); err == nil {
		t.Errorf("server read a stream that ends inside a record and reported success (Wait() == nil)")
	}
}
