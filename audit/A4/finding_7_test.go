// Finding 7 (C19): jhttp.Channel does not preserve the order of records. Send
// returns as soon as it has spawned a goroutine for the POST, so two consecutive
// Sends race to the server on separate HTTP requests. A Client that issues
// Notify(set) and then Call(get) always observes the new value over a direct
// connection (the server's notification barrier guarantees it), but over
// jhttp.Channel + Bridge the call can overtake the notification and observe
// the stale value. TestAuditHTTPChannelOrder forces the interleaving with an
// HTTPClient (a documented option) that delays one POST by 150ms;
// TestAuditHTTPNaturalOrder shows it also happens with http.DefaultClient on
// loopback (about 1 round in 3 here; not deterministic).
//
// Copy to: jhttp/finding_7_test.go
// Run:     go test -vet=off -timeout 120s -count=1 -run 'TestAuditHTTP(Channel|Natural)Order' ./jhttp/
package jhttp_test

import (
	"bytes"
	"context"
	"io"
	"net/http"
	"net/http/httptest"
	"sync/atomic"
	"testing"
	"time"

	"github.com/creachadair/jrpc2"
	"github.com/creachadair/jrpc2/channel"
	"github.com/creachadair/jrpc2/handler"
	"github.com/creachadair/jrpc2/jhttp"
)

// slowNotes is an HTTP client whose POSTs carrying a "set" request take a
// little longer to reach the server than the others (think: a fresh TCP
// connection versus a pooled one).
type slowNotes struct{}

func (slowNotes) Do(req *http.Request) (*http.Response, error) {
	body, _ := io.ReadAll(req.Body)
	req.Body = io.NopCloser(bytes.NewReader(body))
	if bytes.Contains(body, []byte(`"set"`)) {
		time.Sleep(150 * time.Millisecond)
	}
	return http.DefaultClient.Do(req)
}

func workload(t *testing.T, cli *jrpc2.Client) int64 {
	t.Helper()
	ctx := context.Background()
	if err := cli.Notify(ctx, "set", []int64{42}); err != nil {
		t.Fatalf("Notify: %v", err)
	}
	var got int64
	if err := cli.CallResult(ctx, "get", nil, &got); err != nil {
		t.Fatalf("Call: %v", err)
	}
	return got
}

func newMux() handler.Map {
	var v atomic.Int64
	return handler.Map{
		"set": handler.New(func(_ context.Context, a []int64) error { v.Store(a[0]); return nil }),
		"get": handler.New(func(context.Context) (int64, error) { return v.Load(), nil }),
	}
}

func TestAuditHTTPChannelOrder(t *testing.T) {
	// Direct connection: a notification is always handled before a later call.
	cch, sch := channel.Direct()
	srv := jrpc2.NewServer(newMux(), nil).Start(sch)
	dcli := jrpc2.NewClient(cch, nil)
	direct := workload(t, dcli)
	dcli.Close()
	srv.Wait()

	// The same workload through jhttp.Channel against a Bridge.
	b := jhttp.NewBridge(newMux(), nil)
	defer b.Close()
	hsrv := httptest.NewServer(b)
	defer hsrv.Close()
	hch := jhttp.NewChannel(hsrv.URL, &jhttp.ChannelOptions{Client: slowNotes{}})
	hcli := jrpc2.NewClient(hch, nil)
	viaHTTP := workload(t, hcli)
	hcli.Close()

	if direct != 42 {
		t.Fatalf("direct: got %d, want 42", direct)
	}
	if viaHTTP != direct {
		t.Errorf("Notify(set 42) then Call(get): direct connection sees %d, jhttp.Channel+Bridge sees %d", direct, viaHTTP)
	}
}

func TestAuditHTTPNaturalOrder(t *testing.T) {
	b := jhttp.NewBridge(newMux(), nil)
	defer b.Close()
	hsrv := httptest.NewServer(b)
	defer hsrv.Close()
	hcli := jrpc2.NewClient(jhttp.NewChannel(hsrv.URL, nil), nil)
	defer hcli.Close()
	ctx := context.Background()
	bad := 0
	for i := int64(1); i <= 300; i++ {
		hcli.Notify(ctx, "set", []int64{i})
		var got int64
		if err := hcli.CallResult(ctx, "get", nil, &got); err != nil {
			t.Fatal(err)
		}
		if got != i {
			bad++
		}
	}
	if bad > 0 {
		t.Errorf("%d of 300 Notify-then-Call rounds saw a stale value with the default http client", bad)
	}
}
