// Audit finding 3.
// Copy to: the repository root package directory (package jrpc2_test, next to server.go)
// Run:     go test -vet=off -timeout 120s -count=1 -run 'TestAuditFinding3$' .
package jrpc2_test

import (
	"context"
	"encoding/json"
	"errors"
	"testing"
	"time"

	"github.com/creachadair/jrpc2"
	"github.com/creachadair/jrpc2/channel"
)

type auditAssigner3 map[string]jrpc2.Handler

func (m auditAssigner3) Assign(_ context.Context, s string) jrpc2.Handler { return m[s] }

// auditPeer3 is a raw JSON-RPC peer: it writes byte records to a running
// server and collects every record the server emits.
type auditPeer3 struct {
	t   *testing.T
	cli channel.Channel
	srv *jrpc2.Server
	in  chan string
}

func newAuditPeer3(t *testing.T, mux jrpc2.Assigner, opts *jrpc2.ServerOptions) *auditPeer3 {
	cch, sch := channel.Direct()
	p := &auditPeer3{t: t, cli: cch, in: make(chan string, 64)}
	p.srv = jrpc2.NewServer(mux, opts).Start(sch)
	go func() {
		for {
			b, err := cch.Recv()
			if err != nil {
				close(p.in)
				return
			}
			p.in <- string(b)
		}
	}()
	t.Cleanup(func() { cch.Close(); p.srv.Stop(); p.srv.Wait() })
	return p
}

func (p *auditPeer3) send(s string) {
	p.t.Helper()
	if err := p.cli.Send([]byte(s)); err != nil {
		p.t.Fatalf("send: %v", err)
	}
}

// recv returns the next record from the server, or "" if none arrives in d.
func (p *auditPeer3) recv(d time.Duration) string {
	select {
	case s := <-p.in:
		return s
	case <-time.After(d):
		return ""
	}
}

// C02: every emitted message is a valid JSON-RPC 2.0 response whose error
// object has an integer code and a string message. Error.Message is tagged
// omitempty, so an error with an empty text goes out without "message".
func TestAuditFinding3(t *testing.T) {
	p := newAuditPeer3(t, auditAssigner3{
		"a": func(context.Context, *jrpc2.Request) (any, error) { return nil, &jrpc2.Error{Code: 5} },
		"b": func(context.Context, *jrpc2.Request) (any, error) { return nil, errors.New("") },
		"c": func(context.Context, *jrpc2.Request) (any, error) { return nil, jrpc2.Errorf(jrpc2.InvalidParams, "") },
	}, nil)
	for _, m := range []string{"a", "b", "c"} {
		p.send(`{"jsonrpc":"2.0","id":1,"method":"` + m + `"}`)
		got := p.recv(time.Second)
		var o struct {
			E map[string]json.RawMessage `json:"error"`
		}
		if err := json.Unmarshal([]byte(got), &o); err != nil || o.E == nil {
			t.Fatalf("method %s: unexpected reply %q", m, got)
		}
		msg, ok := o.E["message"]
		if !ok || len(msg) == 0 || msg[0] != '"' {
			t.Errorf("method %s: error object has no string \"message\" member: %s", m, got)
		}
	}
}
