// Audit finding 6.
// Copy to: the repository root package directory (package jrpc2_test, next to server.go)
// Run:     go test -vet=off -timeout 120s -count=1 -run 'TestAuditFinding6$' .
package jrpc2_test

import (
	"context"
	"encoding/json"
	"testing"
	"time"

	"github.com/creachadair/jrpc2"
	"github.com/creachadair/jrpc2/channel"
)

type auditAssigner6 map[string]jrpc2.Handler

func (m auditAssigner6) Assign(_ context.Context, s string) jrpc2.Handler { return m[s] }

// auditPeer6 is a raw JSON-RPC peer: it writes byte records to a running
// server and collects every record the server emits.
type auditPeer6 struct {
	t   *testing.T
	cli channel.Channel
	srv *jrpc2.Server
	in  chan string
}

func newAuditPeer6(t *testing.T, mux jrpc2.Assigner, opts *jrpc2.ServerOptions) *auditPeer6 {
	cch, sch := channel.Direct()
	p := &auditPeer6{t: t, cli: cch, in: make(chan string, 64)}
	p.srv = jrpc2.NewServer(mux, opts).Start(sch)
	go func() {
		for {
			b, err := cch.Recv()
			if err != nil {
				close(p.in)
				return
			}
			p.in <- string(b)
		}
	}()
	t.Cleanup(func() { cch.Close(); p.srv.Stop(); p.srv.Wait() })
	return p
}

func (p *auditPeer6) send(s string) {
	p.t.Helper()
	if err := p.cli.Send([]byte(s)); err != nil {
		p.t.Fatalf("send: %v", err)
	}
}

// recv returns the next record from the server, or "" if none arrives in d.
func (p *auditPeer6) recv(d time.Duration) string {
	select {
	case s := <-p.in:
		return s
	case <-time.After(d):
		return ""
	}
}

// C02: every emitted message has exactly one of result or error. A handler
// that returns a nil *jrpc2.Error through the error interface (the classic
// typed-nil) makes tasks.responses copy the nil pointer into the reply, and
// the server emits {"jsonrpc":"2.0","id":N} with neither member.
func TestAuditFinding6(t *testing.T) {
	p := newAuditPeer6(t, auditAssigner6{
		"m": func(context.Context, *jrpc2.Request) (any, error) {
			var e *jrpc2.Error // stays nil: nothing went wrong
			return "value", e
		},
	}, nil)
	p.send(`{"jsonrpc":"2.0","id":3,"method":"m"}`)
	got := p.recv(time.Second)
	var o map[string]json.RawMessage
	if err := json.Unmarshal([]byte(got), &o); err != nil {
		t.Fatalf("bad reply %q", got)
	}
	_, hasR := o["result"]
	_, hasE := o["error"]
	if hasR == hasE {
		t.Errorf("reply must have exactly one of result/error: %s", got)
	}
}
