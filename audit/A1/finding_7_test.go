// Audit finding 7.
// Copy to: the repository root package directory (package jrpc2_test, next to server.go)
// Run:     go test -vet=off -timeout 120s -count=1 -run 'TestAuditFinding7$' .
package jrpc2_test

import (
	"context"
	"strings"
	"testing"
	"time"

	"github.com/creachadair/jrpc2"
	"github.com/creachadair/jrpc2/channel"
)

type auditAssigner7 map[string]jrpc2.Handler

func (m auditAssigner7) Assign(_ context.Context, s string) jrpc2.Handler { return m[s] }

// auditPeer7 is a raw JSON-RPC peer: it writes byte records to a running
// server and collects every record the server emits.
type auditPeer7 struct {
	t   *testing.T
	cli channel.Channel
	srv *jrpc2.Server
	in  chan string
}

func newAuditPeer7(t *testing.T, mux jrpc2.Assigner, opts *jrpc2.ServerOptions) *auditPeer7 {
	cch, sch := channel.Direct()
	p := &auditPeer7{t: t, cli: cch, in: make(chan string, 64)}
	p.srv = jrpc2.NewServer(mux, opts).Start(sch)
	go func() {
		for {
			b, err := cch.Recv()
			if err != nil {
				close(p.in)
				return
			}
			p.in <- string(b)
		}
	}()
	t.Cleanup(func() { cch.Close(); p.srv.Stop(); p.srv.Wait() })
	return p
}

func (p *auditPeer7) send(s string) {
	p.t.Helper()
	if err := p.cli.Send([]byte(s)); err != nil {
		p.t.Fatalf("send: %v", err)
	}
}

// recv returns the next record from the server, or "" if none arrives in d.
func (p *auditPeer7) recv(d time.Duration) string {
	select {
	case s := <-p.in:
		return s
	case <-time.After(d):
		return ""
	}
}

// C01: a notification never produces a response. tasks.responses lets a
// notification through when its error has code -32700/-32600, assuming that
// only parse/validation produce those; but the error may also come from
// marshalling the handler's return value (ErrorCode unwraps it).
type auditBad7 struct{}

func (auditBad7) MarshalJSON() ([]byte, error) {
	return nil, jrpc2.Errorf(jrpc2.InvalidRequest, "cannot encode")
}

func TestAuditFinding7(t *testing.T) {
	p := newAuditPeer7(t, auditAssigner7{
		"n": func(context.Context, *jrpc2.Request) (any, error) { return auditBad7{}, nil },
	}, nil)
	p.send(`{"jsonrpc":"2.0","method":"n"}`)                 // a well-formed notification
	p.send(`{"jsonrpc":"2.0","id":"sentinel","method":"?"}`) // flushes
	got := p.recv(time.Second)
	if !strings.Contains(got, `"sentinel"`) {
		t.Errorf("the server answered a notification: %s", got)
	}
}
