// Audit finding 5.
// Copy to: the repository root package directory (package jrpc2_test, next to server.go)
// Run:     go test -vet=off -timeout 120s -count=1 -run 'TestAuditFinding5$' .
package jrpc2_test

import (
	"context"
	"encoding/json"
	"strings"
	"testing"
	"time"

	"github.com/creachadair/jrpc2"
	"github.com/creachadair/jrpc2/channel"
)

type auditAssigner5 map[string]jrpc2.Handler

func (m auditAssigner5) Assign(_ context.Context, s string) jrpc2.Handler { return m[s] }

// auditPeer5 is a raw JSON-RPC peer: it writes byte records to a running
// server and collects every record the server emits.
type auditPeer5 struct {
	t   *testing.T
	cli channel.Channel
	srv *jrpc2.Server
	in  chan string
}

func newAuditPeer5(t *testing.T, mux jrpc2.Assigner, opts *jrpc2.ServerOptions) *auditPeer5 {
	cch, sch := channel.Direct()
	p := &auditPeer5{t: t, cli: cch, in: make(chan string, 64)}
	p.srv = jrpc2.NewServer(mux, opts).Start(sch)
	go func() {
		for {
			b, err := cch.Recv()
			if err != nil {
				close(p.in)
				return
			}
			p.in <- string(b)
		}
	}()
	t.Cleanup(func() { cch.Close(); p.srv.Stop(); p.srv.Wait() })
	return p
}

func (p *auditPeer5) send(s string) {
	p.t.Helper()
	if err := p.cli.Send([]byte(s)); err != nil {
		p.t.Fatalf("send: %v", err)
	}
}

// recv returns the next record from the server, or "" if none arrives in d.
func (p *auditPeer5) recv(d time.Duration) string {
	select {
	case s := <-p.in:
		return s
	case <-time.After(d):
		return ""
	}
}

// C01: every well-formed call produces exactly one response. If one handler
// of a batch returns a *jrpc2.Error whose Data is not valid JSON, encoding the
// reply message fails in deliver, the error is discarded, and NOTHING is sent:
// neither for that call nor for the other, successful, calls of the batch.
func TestAuditFinding5(t *testing.T) {
	p := newAuditPeer5(t, auditAssigner5{
		"ok": func(context.Context, *jrpc2.Request) (any, error) { return "fine", nil },
		"bad": func(context.Context, *jrpc2.Request) (any, error) {
			return nil, &jrpc2.Error{Code: 5, Message: "m", Data: json.RawMessage(`{bad`)}
		},
	}, nil)
	p.send(`[{"jsonrpc":"2.0","id":1,"method":"ok"},{"jsonrpc":"2.0","id":2,"method":"bad"}]`)
	got := p.recv(time.Second)
	if !strings.Contains(got, `"id":1`) || !strings.Contains(got, `"id":2`) {
		t.Errorf("want one reply message with responses for ids 1 and 2, got %q", got)
	}
	// A single call is lost as well.
	p.send(`{"jsonrpc":"2.0","id":3,"method":"bad"}`)
	if got := p.recv(time.Second); !strings.Contains(got, `"id":3`) {
		t.Errorf("want a response for id 3, got %q", got)
	}
}
