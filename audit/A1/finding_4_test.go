// Audit finding 4.
// Copy to: the repository root package directory (package jrpc2_test, next to server.go)
// Run:     go test -vet=off -timeout 120s -count=1 -run 'TestAuditFinding4$' .
package jrpc2_test

import (
	"context"
	"strings"
	"sync/atomic"
	"testing"
	"time"

	"github.com/creachadair/jrpc2"
	"github.com/creachadair/jrpc2/channel"
)

type auditAssigner4 map[string]jrpc2.Handler

func (m auditAssigner4) Assign(_ context.Context, s string) jrpc2.Handler { return m[s] }

// auditPeer4 is a raw JSON-RPC peer: it writes byte records to a running
// server and collects every record the server emits.
type auditPeer4 struct {
	t   *testing.T
	cli channel.Channel
	srv *jrpc2.Server
	in  chan string
}

func newAuditPeer4(t *testing.T, mux jrpc2.Assigner, opts *jrpc2.ServerOptions) *auditPeer4 {
	cch, sch := channel.Direct()
	p := &auditPeer4{t: t, cli: cch, in: make(chan string, 64)}
	p.srv = jrpc2.NewServer(mux, opts).Start(sch)
	go func() {
		for {
			b, err := cch.Recv()
			if err != nil {
				close(p.in)
				return
			}
			p.in <- string(b)
		}
	}()
	t.Cleanup(func() { cch.Close(); p.srv.Stop(); p.srv.Wait() })
	return p
}

func (p *auditPeer4) send(s string) {
	p.t.Helper()
	if err := p.cli.Send([]byte(s)); err != nil {
		p.t.Fatalf("send: %v", err)
	}
}

// recv returns the next record from the server, or "" if none arrives in d.
func (p *auditPeer4) recv(d time.Duration) string {
	select {
	case s := <-p.in:
		return s
	case <-time.After(d):
		return ""
	}
}

// C03: "... so a client that sends a notification and then anything else knows
// the notification was fully processed first." The barrier only delays the
// *invocation* of the later request's handler; the handler itself is chosen
// (Assigner.Assign, which may consult the inbound request and server state),
// and the unknown-method verdict is reached, BEFORE the barrier wait, i.e. while
// the earlier notification is still running. A later call is therefore resolved
// against the state from before the notification.
type auditDyn4 struct{ enabled atomic.Bool }

func (d *auditDyn4) Assign(_ context.Context, method string) jrpc2.Handler {
	switch method {
	case "enable": // a notification that switches a feature on
		return func(context.Context, *jrpc2.Request) (any, error) {
			time.Sleep(100 * time.Millisecond)
			d.enabled.Store(true)
			return nil, nil
		}
	case "feature": // available only once enabled
		if d.enabled.Load() {
			return func(context.Context, *jrpc2.Request) (any, error) { return "ok", nil }
		}
	}
	return nil
}

func TestAuditFinding4(t *testing.T) {
	_ = auditAssigner4(nil)
	p := newAuditPeer4(t, new(auditDyn4), nil)
	p.send(`{"jsonrpc":"2.0","method":"enable"}`)         // notification, earlier message
	p.send(`{"jsonrpc":"2.0","id":1,"method":"feature"}`) // call, later message
	got := p.recv(2 * time.Second)
	if !strings.Contains(got, `"result":"ok"`) {
		t.Errorf("the call was resolved before the earlier notification had been processed: %s", got)
	}
}
