// Audit finding 1.
// Copy to: the repository root package directory (package jrpc2_test, next to server.go)
// Run:     go test -vet=off -timeout 120s -count=1 -run 'TestAuditFinding1$' .
package jrpc2_test

import (
	"context"
	"strings"
	"sync/atomic"
	"testing"
	"time"

	"github.com/creachadair/jrpc2"
	"github.com/creachadair/jrpc2/channel"
)

type auditAssigner1 map[string]jrpc2.Handler

func (m auditAssigner1) Assign(_ context.Context, s string) jrpc2.Handler { return m[s] }

// auditPeer1 is a raw JSON-RPC peer: it writes byte records to a running
// server and collects every record the server emits.
type auditPeer1 struct {
	t   *testing.T
	cli channel.Channel
	srv *jrpc2.Server
	in  chan string
}

func newAuditPeer1(t *testing.T, mux jrpc2.Assigner, opts *jrpc2.ServerOptions) *auditPeer1 {
	cch, sch := channel.Direct()
	p := &auditPeer1{t: t, cli: cch, in: make(chan string, 64)}
	p.srv = jrpc2.NewServer(mux, opts).Start(sch)
	go func() {
		for {
			b, err := cch.Recv()
			if err != nil {
				close(p.in)
				return
			}
			p.in <- string(b)
		}
	}()
	t.Cleanup(func() { cch.Close(); p.srv.Stop(); p.srv.Wait() })
	return p
}

func (p *auditPeer1) send(s string) {
	p.t.Helper()
	if err := p.cli.Send([]byte(s)); err != nil {
		p.t.Fatalf("send: %v", err)
	}
}

// recv returns the next record from the server, or "" if none arrives in d.
func (p *auditPeer1) recv(d time.Duration) string {
	select {
	case s := <-p.in:
		return s
	case <-time.After(d):
		return ""
	}
}

// C02: a member that carries both request fields and a reply field is not a
// valid request ("mixed fields") and must be answered with -32600 without a
// handler being run. {"method":..,"result":null} is rejected that way, but
// {"method":..,"error":null} is accepted and its handler runs.
func TestAuditFinding1(t *testing.T) {
	var ran atomic.Int32
	p := newAuditPeer1(t, auditAssigner1{"x": func(context.Context, *jrpc2.Request) (any, error) {
		ran.Add(1)
		return "ran", nil
	}}, nil)

	// Control: the symmetric case with "result" is rejected.
	p.send(`{"jsonrpc":"2.0","id":1,"method":"x","result":null}`)
	if got := p.recv(time.Second); !strings.Contains(got, `"code":-32600`) {
		t.Fatalf("control: want -32600, got %s", got)
	}

	p.send(`{"jsonrpc":"2.0","id":2,"method":"x","error":null}`)
	got := p.recv(time.Second)
	if n := ran.Load(); n != 0 {
		t.Errorf("handler ran %d time(s) for a member with mixed request and reply fields", n)
	}
	if !strings.Contains(got, `"code":-32600`) || !strings.Contains(got, `"id":2`) {
		t.Errorf("want error -32600 for id 2, got %s", got)
	}
}
