// Audit finding 8.
// Copy to: the repository root package directory (package jrpc2_test, next to server.go)
// Run:     go test -vet=off -timeout 120s -count=1 -run 'TestAuditFinding8$' .
package jrpc2_test

import (
	"context"
	"strings"
	"testing"
	"time"

	"github.com/creachadair/jrpc2"
	"github.com/creachadair/jrpc2/channel"
)

type auditAssigner8 map[string]jrpc2.Handler

func (m auditAssigner8) Assign(_ context.Context, s string) jrpc2.Handler { return m[s] }

// auditPeer8 is a raw JSON-RPC peer: it writes byte records to a running
// server and collects every record the server emits.
type auditPeer8 struct {
	t   *testing.T
	cli channel.Channel
	srv *jrpc2.Server
	in  chan string
}

func newAuditPeer8(t *testing.T, mux jrpc2.Assigner, opts *jrpc2.ServerOptions) *auditPeer8 {
	cch, sch := channel.Direct()
	p := &auditPeer8{t: t, cli: cch, in: make(chan string, 64)}
	p.srv = jrpc2.NewServer(mux, opts).Start(sch)
	go func() {
		for {
			b, err := cch.Recv()
			if err != nil {
				close(p.in)
				return
			}
			p.in <- string(b)
		}
	}()
	t.Cleanup(func() { cch.Close(); p.srv.Stop(); p.srv.Wait() })
	return p
}

func (p *auditPeer8) send(s string) {
	p.t.Helper()
	if err := p.cli.Send([]byte(s)); err != nil {
		p.t.Fatalf("send: %v", err)
	}
}

// recv returns the next record from the server, or "" if none arrives in d.
func (p *auditPeer8) recv(d time.Duration) string {
	select {
	case s := <-p.in:
		return s
	case <-time.After(d):
		return ""
	}
}

// C07: while a call with some id is in flight a second request with that id
// is rejected with -32600. Reservations are keyed by the raw spelling of the
// id, so the same id value spelled differently ("a" vs "\u0061", 1 vs 1.0,
// 10 vs 1e1) is accepted and two calls with one id are in flight at once.
func TestAuditFinding8(t *testing.T) {
	for _, c := range [][2]string{{`"a"`, `"\u0061"`}, {`1`, `1.0`}, {`10`, `1e1`}} {
		release := make(chan struct{})
		p := newAuditPeer8(t, auditAssigner8{
			"slow": func(ctx context.Context, _ *jrpc2.Request) (any, error) {
				select {
				case <-release:
				case <-ctx.Done():
				}
				return "done", nil
			},
		}, nil)
		p.send(`{"jsonrpc":"2.0","id":` + c[0] + `,"method":"slow"}`)
		// Control: the identical spelling is rejected.
		p.send(`{"jsonrpc":"2.0","id":` + c[0] + `,"method":"slow"}`)
		if got := p.recv(time.Second); !strings.Contains(got, "duplicate request ID") {
			t.Fatalf("control: want duplicate error, got %q", got)
		}
		p.send(`{"jsonrpc":"2.0","id":` + c[1] + `,"method":"slow"}`)
		got := p.recv(300 * time.Millisecond)
		if !strings.Contains(got, "duplicate request ID") {
			t.Errorf("id %s while %s is in flight: want -32600 duplicate request ID, got %q", c[1], c[0], got)
		}
		close(release)
	}
}
