// Audit finding 2.
// Copy to: the repository root package directory (package jrpc2_test, next to server.go)
// Run:     go test -vet=off -timeout 120s -count=1 -run 'TestAuditFinding2$' .
package jrpc2_test

import (
	"context"
	"encoding/json"
	"testing"
	"time"

	"github.com/creachadair/jrpc2"
	"github.com/creachadair/jrpc2/channel"
)

type auditAssigner2 map[string]jrpc2.Handler

func (m auditAssigner2) Assign(_ context.Context, s string) jrpc2.Handler { return m[s] }

// auditPeer2 is a raw JSON-RPC peer: it writes byte records to a running
// server and collects every record the server emits.
type auditPeer2 struct {
	t   *testing.T
	cli channel.Channel
	srv *jrpc2.Server
	in  chan string
}

func newAuditPeer2(t *testing.T, mux jrpc2.Assigner, opts *jrpc2.ServerOptions) *auditPeer2 {
	cch, sch := channel.Direct()
	p := &auditPeer2{t: t, cli: cch, in: make(chan string, 64)}
	p.srv = jrpc2.NewServer(mux, opts).Start(sch)
	go func() {
		for {
			b, err := cch.Recv()
			if err != nil {
				close(p.in)
				return
			}
			p.in <- string(b)
		}
	}()
	t.Cleanup(func() { cch.Close(); p.srv.Stop(); p.srv.Wait() })
	return p
}

func (p *auditPeer2) send(s string) {
	p.t.Helper()
	if err := p.cli.Send([]byte(s)); err != nil {
		p.t.Fatalf("send: %v", err)
	}
}

// recv returns the next record from the server, or "" if none arrives in d.
func (p *auditPeer2) recv(d time.Duration) string {
	select {
	case s := <-p.in:
		return s
	case <-time.After(d):
		return ""
	}
}

// C02: each invalid member (empty or missing method, non-object, ...) yields
// an error -32600/-32700 echoing its id. Only a *reply-shaped* member may be
// dropped on a push-enabled server. With AllowPush set, the reader's filter
// drops every member whose method is empty - including plainly invalid
// requests that have neither "result" nor "error" - so the peer gets no answer.
func TestAuditFinding2(t *testing.T) {
	cases := []struct{ in, wantID string }{
		{`{"jsonrpc":"2.0","id":7,"method":""}`, "7"},  // empty method
		{`{"jsonrpc":"2.0","id":7,"params":[1]}`, "7"}, // missing method
		{`{"jsonrpc":"2.0","id":7,"method":5}`, "7"},   // non-string method
		{`{"id":7}`, "7"}, // missing version and method
		{`5`, "null"},     // non-object
		{`[5]`, "null"},   // non-object batch member
	}
	for _, push := range []bool{false, true} {
		p := newAuditPeer2(t, auditAssigner2{"x": func(context.Context, *jrpc2.Request) (any, error) { return 1, nil }},
			&jrpc2.ServerOptions{AllowPush: push})
		for _, c := range cases {
			p.send(c.in)
			got := p.recv(500 * time.Millisecond)
			if got == "" {
				t.Errorf("AllowPush=%v: %s: no answer at all", push, c.in)
				continue
			}
			if got[0] == '[' {
				var arr []json.RawMessage
				if json.Unmarshal([]byte(got), &arr) != nil || len(arr) != 1 {
					t.Errorf("AllowPush=%v: %s: got %s", push, c.in, got)
					continue
				}
				got = string(arr[0])
			}
			var o struct {
				ID json.RawMessage `json:"id"`
				E  *struct {
					Code int `json:"code"`
				} `json:"error"`
			}
			if err := json.Unmarshal([]byte(got), &o); err != nil || o.E == nil ||
				(o.E.Code != -32600 && o.E.Code != -32700) || string(o.ID) != c.wantID {
				t.Errorf("AllowPush=%v: %s: got %s", push, c.in, got)
			}
		}
	}
}
