// Finding 7 (C14): a handler error whose ErrCoder reports code -32099
// (jrpc2.NoError) reaches the caller as -32603 (InternalError), while an
// *Error carrying the very same code passes through unchanged.
//
// Copy to: the repository root (package directory of github.com/creachadair/jrpc2)
// Run:     go test -vet=off -timeout 120s -count=1 -run 'TestFinding7' .
package jrpc2_test

import (
	"context"
	"fmt"
	"testing"

	"github.com/creachadair/jrpc2"
	"github.com/creachadair/jrpc2/channel"
	"github.com/creachadair/jrpc2/handler"
)

type codedErr7 struct {
	code jrpc2.Code
	msg  string
}

func (e codedErr7) Error() string       { return e.msg }
func (e codedErr7) ErrCode() jrpc2.Code { return e.code }

func TestFinding7_ErrCoderCodeRoundTrip(t *testing.T) {
	errs := map[string]error{
		"coder-32099":   codedErr7{-32099, "custom"},
		"wrapped-32099": fmt.Errorf("wrap: %w", codedErr7{-32099, "custom"}),
		"ptr-32099":     &jrpc2.Error{Code: -32099, Message: "x"}, // control: passes
		"coder-0":       codedErr7{0, "zero"},                     // control: passes
		"coder-min":     codedErr7{-2147483648, "min"},            // control: passes
	}
	mux := handler.Map{}
	for name, e := range errs {
		e := e
		mux[name] = func(context.Context, *jrpc2.Request) (any, error) { return nil, e }
	}
	cch, sch := channel.Direct()
	srv := jrpc2.NewServer(mux, nil).Start(sch)
	cli := jrpc2.NewClient(cch, nil)
	defer func() { cli.Close(); srv.Wait() }()

	for name, e := range errs {
		_, err := cli.Call(context.Background(), name, nil)
		if want, got := jrpc2.ErrorCode(e), jrpc2.ErrorCode(err); want != got {
			t.Errorf("%s: the handler's error has ErrorCode %d, the caller's error has %d (%v)", name, want, got, err)
		}
	}
}
