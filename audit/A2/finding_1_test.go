// Finding 1 (C04 / C05): a reply that the client has already received is lost
// when the stream ends right behind it; the call fails with context.Canceled
// and OnCancel fires for a request the peer answered.
//
// Copy to: the repository root (package directory of github.com/creachadair/jrpc2)
// Run:     go test -vet=off -timeout 120s -count=1 -run 'TestFinding1' .
package jrpc2_test

import (
	"bufio"
	"context"
	"io"
	"runtime"
	"sync"
	"sync/atomic"
	"testing"

	"github.com/creachadair/jrpc2"
	"github.com/creachadair/jrpc2/channel"
)

// peer1 is a channel.Channel standing in for the peer. Every record the client
// sends is handed to onSend, which may queue records for the client to receive
// and may end the stream (EOF after the queued records).
type peer1 struct {
	mu     sync.Mutex
	cond   *sync.Cond
	queue  [][]byte
	eof    bool
	closed bool
	onSend func(p *peer1, msg []byte)
}

func newPeer1(onSend func(*peer1, []byte)) *peer1 {
	p := &peer1{onSend: onSend}
	p.cond = sync.NewCond(&p.mu)
	return p
}

func (p *peer1) push(recs ...string) {
	p.mu.Lock()
	for _, r := range recs {
		p.queue = append(p.queue, []byte(r))
	}
	p.mu.Unlock()
	p.cond.Broadcast()
}

func (p *peer1) end() {
	p.mu.Lock()
	p.eof = true
	p.mu.Unlock()
	p.cond.Broadcast()
}

func (p *peer1) Send(msg []byte) error {
	if p.onSend != nil {
		p.onSend(p, append([]byte(nil), msg...))
	}
	return nil
}

func (p *peer1) Recv() ([]byte, error) {
	p.mu.Lock()
	defer p.mu.Unlock()
	for len(p.queue) == 0 && !p.eof && !p.closed {
		p.cond.Wait()
	}
	if len(p.queue) != 0 {
		r := p.queue[0]
		p.queue = p.queue[1:]
		return r, nil
	}
	if p.eof {
		return nil, io.EOF
	}
	return nil, channel.ErrClosed
}

func (p *peer1) Close() error {
	p.mu.Lock()
	p.closed = true
	p.mu.Unlock()
	p.cond.Broadcast()
	return nil
}

// The peer answers the one request it gets and hangs up (what any one-shot
// server does). The reply precedes the EOF on the stream, so the call must
// complete with it.
func TestFinding1_ReplyThenEOF(t *testing.T) {
	lost, hooks := 0, int32(0)
	const n = 500
	for i := 0; i < n; i++ {
		var cancelled atomic.Int32
		peer := newPeer1(func(p *peer1, _ []byte) {
			p.push(`{"jsonrpc":"2.0","id":1,"result":42}`)
			p.end()
		})
		cli := jrpc2.NewClient(peer, &jrpc2.ClientOptions{
			OnCancel: func(*jrpc2.Client, *jrpc2.Response) { cancelled.Add(1) },
		})
		var got int
		err := cli.CallResult(context.Background(), "M", nil, &got)
		cli.Close()
		if err != nil {
			if lost == 0 {
				t.Logf("iteration %d: peer sent result 42 for id 1 and then EOF; Call reports %v; OnCancel calls: %d", i, err, cancelled.Load())
			}
			lost++
			hooks += cancelled.Load()
		} else if got != 42 {
			t.Fatalf("got %d, want 42", got)
		}
	}
	if lost != 0 {
		t.Errorf("%d of %d calls lost a reply that was received before the EOF; OnCancel ran %d times for answered requests", lost, n, hooks)
	}
}

// The same with a single P, where the outcome is deterministic: the watcher
// woken by stopLocked is scheduled ahead of the delivery goroutine.
func TestFinding1_ReplyThenEOF_OneP(t *testing.T) {
	defer runtime.GOMAXPROCS(runtime.GOMAXPROCS(1))
	peer := newPeer1(func(p *peer1, _ []byte) {
		p.push(`{"jsonrpc":"2.0","id":1,"result":42}`)
		p.end()
	})
	cli := jrpc2.NewClient(peer, nil)
	defer cli.Close()
	var got int
	if err := cli.CallResult(context.Background(), "M", nil, &got); err != nil {
		t.Fatalf("peer sent result 42 for id 1 and then EOF; Call reports: %v", err)
	}
}

// The same over a byte stream with the library's own Line framing.
func TestFinding1_ReplyThenHangup_Pipe(t *testing.T) {
	lost := 0
	const n = 2000
	for i := 0; i < n; i++ {
		c2sR, c2sW := io.Pipe()
		s2cR, s2cW := io.Pipe()
		go func() {
			br := bufio.NewReader(c2sR)
			br.ReadBytes('\n')
			s2cW.Write([]byte(`{"jsonrpc":"2.0","id":1,"result":42}` + "\n"))
			s2cW.Close()
			io.Copy(io.Discard, br)
		}()
		cli := jrpc2.NewClient(channel.Line(s2cR, c2sW), nil)
		var got int
		if err := cli.CallResult(context.Background(), "M", nil, &got); err != nil {
			lost++
		}
		cli.Close()
	}
	if lost != 0 {
		t.Errorf("%d of %d answered calls failed", lost, n)
	}
}
