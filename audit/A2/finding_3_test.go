// Finding 3 (C04): a message that bears a pending id but neither "result" nor
// "error" (a bare id, an empty-method request, "error":null, a params-only
// object) completes the call SUCCESSFULLY with an empty result, and consumes
// the id so that the peer's actual reply is discarded.
//
// Copy to: the repository root (package directory of github.com/creachadair/jrpc2)
// Run:     go test -vet=off -timeout 120s -count=1 -run 'TestFinding3' .
package jrpc2_test

import (
	"context"
	"io"
	"sync"
	"testing"
	"time"

	"github.com/creachadair/jrpc2"
	"github.com/creachadair/jrpc2/channel"
)

// peer3 is a channel.Channel standing in for the peer. Every record the client
// sends is handed to onSend, which may queue records for the client to receive
// and may end the stream (EOF after the queued records).
type peer3 struct {
	mu     sync.Mutex
	cond   *sync.Cond
	queue  [][]byte
	eof    bool
	closed bool
	onSend func(p *peer3, msg []byte)
}

func newPeer3(onSend func(*peer3, []byte)) *peer3 {
	p := &peer3{onSend: onSend}
	p.cond = sync.NewCond(&p.mu)
	return p
}

func (p *peer3) push(recs ...string) {
	p.mu.Lock()
	for _, r := range recs {
		p.queue = append(p.queue, []byte(r))
	}
	p.mu.Unlock()
	p.cond.Broadcast()
}

func (p *peer3) end() {
	p.mu.Lock()
	p.eof = true
	p.mu.Unlock()
	p.cond.Broadcast()
}

func (p *peer3) Send(msg []byte) error {
	if p.onSend != nil {
		p.onSend(p, append([]byte(nil), msg...))
	}
	return nil
}

func (p *peer3) Recv() ([]byte, error) {
	p.mu.Lock()
	defer p.mu.Unlock()
	for len(p.queue) == 0 && !p.eof && !p.closed {
		p.cond.Wait()
	}
	if len(p.queue) != 0 {
		r := p.queue[0]
		p.queue = p.queue[1:]
		return r, nil
	}
	if p.eof {
		return nil, io.EOF
	}
	return nil, channel.ErrClosed
}

func (p *peer3) Close() error {
	p.mu.Lock()
	p.closed = true
	p.mu.Unlock()
	p.cond.Broadcast()
	return nil
}

func TestFinding3_ResultlessMessageCompletesCall(t *testing.T) {
	for _, junk := range []string{
		`{"jsonrpc":"2.0","id":1}`,
		`{"jsonrpc":"2.0","id":1,"method":""}`, // malformed server-initiated request
		`{"jsonrpc":"2.0","id":1,"error":null}`,
		`{"jsonrpc":"2.0","id":1,"params":[1]}`,
	} {
		t.Run(junk, func(t *testing.T) {
			peer := newPeer3(func(p *peer3, _ []byte) {
				p.push(junk)
				go func() {
					time.Sleep(50 * time.Millisecond)
					p.push(`{"jsonrpc":"2.0","id":1,"result":42}`) // the reply
				}()
			})
			cli := jrpc2.NewClient(peer, nil)
			defer cli.Close()
			ctx, cancel := context.WithTimeout(context.Background(), 2*time.Second)
			defer cancel()

			// Acceptable: the result 42 (junk ignored), or an error (junk
			// reported as an invalid reply). Not acceptable: success with a
			// result the peer never sent.
			rsp, err := cli.Call(ctx, "M", nil)
			if err == nil && rsp.ResultString() != "42" {
				var v any
				t.Fatalf("Call succeeded with result %q (UnmarshalResult: %v); the only reply the peer sent for id 1 has result 42",
					rsp.ResultString(), rsp.UnmarshalResult(&v))
			}
		})
	}
}
