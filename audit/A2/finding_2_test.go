// Finding 2 (C04): the reply in the final, unterminated record of the stream
// is dropped by the client, although the channel hands it over (split.Recv
// returns the record together with io.EOF, and Server.read processes it).
//
// Copy to: the repository root (package directory of github.com/creachadair/jrpc2)
// Run:     go test -vet=off -timeout 120s -count=1 -run 'TestFinding2' .
package jrpc2_test

import (
	"bufio"
	"context"
	"io"
	"strings"
	"testing"

	"github.com/creachadair/jrpc2"
	"github.com/creachadair/jrpc2/channel"
)

func TestFinding2_UnterminatedFinalReply(t *testing.T) {
	c2sR, c2sW := io.Pipe()
	s2cR, s2cW := io.Pipe()
	go func() {
		br := bufio.NewReader(c2sR)
		br.ReadBytes('\n')
		s2cW.Write([]byte(`{"jsonrpc":"2.0","id":1,"result":42}`)) // no LF
		s2cW.Close()
		io.Copy(io.Discard, br)
	}()

	// Premise: this is what the channel gives its reader for such a stream.
	probe := channel.Line(strings.NewReader(`{"jsonrpc":"2.0","id":1,"result":42}`), nopWC2{})
	if rec, err := probe.Recv(); len(rec) == 0 || err != io.EOF {
		t.Fatalf("premise: Recv = %q, %v", rec, err)
	}

	cli := jrpc2.NewClient(channel.Line(s2cR, c2sW), nil)
	defer cli.Close()
	var got int
	if err := cli.CallResult(context.Background(), "M", nil, &got); err != nil {
		t.Fatalf("the reply in the final record was dropped: Call reports %v", err)
	}
	if got != 42 {
		t.Fatalf("got %d", got)
	}
}

type nopWC2 struct{}

func (nopWC2) Write(b []byte) (int, error) { return len(b), nil }
func (nopWC2) Close() error                { return nil }
