// Finding 4 (C05): Close does not wait for the goroutines that settle the
// requests it terminates (Client.waitComplete) nor for the OnCancel hooks they
// run: they are not counted in c.done. Close returns with them still running.
//
// Copy to: the repository root (package directory of github.com/creachadair/jrpc2)
// Run:     go test -vet=off -timeout 120s -count=1 -run 'TestFinding4' .
package jrpc2_test

import (
	"context"
	"io"
	"runtime"
	"strings"
	"sync"
	"sync/atomic"
	"testing"
	"time"

	"github.com/creachadair/jrpc2"
	"github.com/creachadair/jrpc2/channel"
)

// peer4 is a channel.Channel standing in for the peer. Every record the client
// sends is handed to onSend, which may queue records for the client to receive
// and may end the stream (EOF after the queued records).
type peer4 struct {
	mu     sync.Mutex
	cond   *sync.Cond
	queue  [][]byte
	eof    bool
	closed bool
	onSend func(p *peer4, msg []byte)
}

func newPeer4(onSend func(*peer4, []byte)) *peer4 {
	p := &peer4{onSend: onSend}
	p.cond = sync.NewCond(&p.mu)
	return p
}

func (p *peer4) push(recs ...string) {
	p.mu.Lock()
	for _, r := range recs {
		p.queue = append(p.queue, []byte(r))
	}
	p.mu.Unlock()
	p.cond.Broadcast()
}

func (p *peer4) end() {
	p.mu.Lock()
	p.eof = true
	p.mu.Unlock()
	p.cond.Broadcast()
}

func (p *peer4) Send(msg []byte) error {
	if p.onSend != nil {
		p.onSend(p, append([]byte(nil), msg...))
	}
	return nil
}

func (p *peer4) Recv() ([]byte, error) {
	p.mu.Lock()
	defer p.mu.Unlock()
	for len(p.queue) == 0 && !p.eof && !p.closed {
		p.cond.Wait()
	}
	if len(p.queue) != 0 {
		r := p.queue[0]
		p.queue = p.queue[1:]
		return r, nil
	}
	if p.eof {
		return nil, io.EOF
	}
	return nil, channel.ErrClosed
}

func (p *peer4) Close() error {
	p.mu.Lock()
	p.closed = true
	p.mu.Unlock()
	p.cond.Broadcast()
	return nil
}

func TestFinding4_CloseLeavesCancelWatchers(t *testing.T) {
	sent := make(chan struct{}, 1)
	peer := newPeer4(func(*peer4, []byte) { sent <- struct{}{} }) // never replies

	var started, finished atomic.Int32
	release := make(chan struct{})
	cli := jrpc2.NewClient(peer, &jrpc2.ClientOptions{
		OnCancel: func(*jrpc2.Client, *jrpc2.Response) {
			started.Add(1)
			<-release
			finished.Add(1)
		},
	})

	callDone := make(chan error, 1)
	go func() {
		_, err := cli.Call(context.Background(), "M", nil)
		callDone <- err
	}()
	<-sent

	closed := make(chan struct{})
	go func() { cli.Close(); close(closed) }()

	select {
	case <-closed:
		// Close has returned: every goroutine of the client should be gone
		// and every hook it owes should have run to completion.
		time.Sleep(20 * time.Millisecond)
		buf := make([]byte, 1<<20)
		buf = buf[:runtime.Stack(buf, true)]
		left := strings.Count(string(buf), "jrpc2.(*Client).waitComplete(")
		s, f := started.Load(), finished.Load()
		close(release)
		if f != 1 || left != 0 {
			t.Errorf("Close returned with the OnCancel hook for the request it terminated started=%d finished=%d; client goroutines still alive: %d",
				s, f, left)
		}
	case <-time.After(time.Second):
		// An implementation that waits for the hook blocks until released.
		close(release)
		<-closed
		if finished.Load() != 1 {
			t.Errorf("hook did not run")
		}
	}
	if err := <-callDone; err == nil {
		t.Error("Call on a closed client succeeded")
	}
}
