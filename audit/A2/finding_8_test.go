// Finding 8 (C14): a handler error of type *Error whose Data is not valid JSON
// makes the server drop the response for the WHOLE batch (encode fails in
// Server.deliver and the error is discarded by Server.serve): neither the
// failing call nor its well-behaved siblings are ever answered.
//
// Copy to: the repository root (package directory of github.com/creachadair/jrpc2)
// Run:     go test -vet=off -timeout 120s -count=1 -run 'TestFinding8' .
package jrpc2_test

import (
	"context"
	"encoding/json"
	"testing"
	"time"

	"github.com/creachadair/jrpc2"
	"github.com/creachadair/jrpc2/channel"
	"github.com/creachadair/jrpc2/handler"
)

func TestFinding8_UnencodableErrorLosesBatch(t *testing.T) {
	mux := handler.Map{
		"ok": func(context.Context, *jrpc2.Request) (any, error) { return "fine", nil },
		"baderr": func(context.Context, *jrpc2.Request) (any, error) {
			return nil, &jrpc2.Error{Code: 5, Message: "m", Data: json.RawMessage("not json")}
		},
	}
	cch, sch := channel.Direct()
	srv := jrpc2.NewServer(mux, nil).Start(sch)
	cli := jrpc2.NewClient(cch, nil)
	defer func() { cli.Close(); srv.Wait() }()

	ctx, cancel := context.WithTimeout(context.Background(), time.Second)
	defer cancel()
	rsps, err := cli.Batch(ctx, []jrpc2.Spec{{Method: "ok"}, {Method: "baderr"}})
	if err != nil {
		t.Fatal(err)
	}
	// The sibling must get its result; the failing call must get SOME error
	// response from the server (not the client's own deadline).
	if e := rsps[0].Error(); e != nil {
		t.Errorf(`"ok" (id %s): no reply from the server: %v`, rsps[0].ID(), e)
	}
	if e := rsps[1].Error(); e == nil || e.Code == jrpc2.DeadlineExceeded {
		t.Errorf(`"baderr" (id %s): no reply from the server: %v`, rsps[1].ID(), e)
	}
}
