// Finding 6 (C05): Notify ignores its context: with a context that has
// already ended it transmits the notification and returns nil.
//
// Copy to: the repository root (package directory of github.com/creachadair/jrpc2)
// Run:     go test -vet=off -timeout 120s -count=1 -run 'TestFinding6' .
package jrpc2_test

import (
	"context"
	"io"
	"sync"
	"sync/atomic"
	"testing"
	"time"

	"github.com/creachadair/jrpc2"
	"github.com/creachadair/jrpc2/channel"
)

// peer6 is a channel.Channel standing in for the peer. Every record the client
// sends is handed to onSend, which may queue records for the client to receive
// and may end the stream (EOF after the queued records).
type peer6 struct {
	mu     sync.Mutex
	cond   *sync.Cond
	queue  [][]byte
	eof    bool
	closed bool
	onSend func(p *peer6, msg []byte)
}

func newPeer6(onSend func(*peer6, []byte)) *peer6 {
	p := &peer6{onSend: onSend}
	p.cond = sync.NewCond(&p.mu)
	return p
}

func (p *peer6) push(recs ...string) {
	p.mu.Lock()
	for _, r := range recs {
		p.queue = append(p.queue, []byte(r))
	}
	p.mu.Unlock()
	p.cond.Broadcast()
}

func (p *peer6) end() {
	p.mu.Lock()
	p.eof = true
	p.mu.Unlock()
	p.cond.Broadcast()
}

func (p *peer6) Send(msg []byte) error {
	if p.onSend != nil {
		p.onSend(p, append([]byte(nil), msg...))
	}
	return nil
}

func (p *peer6) Recv() ([]byte, error) {
	p.mu.Lock()
	defer p.mu.Unlock()
	for len(p.queue) == 0 && !p.eof && !p.closed {
		p.cond.Wait()
	}
	if len(p.queue) != 0 {
		r := p.queue[0]
		p.queue = p.queue[1:]
		return r, nil
	}
	if p.eof {
		return nil, io.EOF
	}
	return nil, channel.ErrClosed
}

func (p *peer6) Close() error {
	p.mu.Lock()
	p.closed = true
	p.mu.Unlock()
	p.cond.Broadcast()
	return nil
}

func TestFinding6_NotifyIgnoresContext(t *testing.T) {
	var sent atomic.Int32
	peer := newPeer6(func(*peer6, []byte) { sent.Add(1) })
	cli := jrpc2.NewClient(peer, nil)
	defer cli.Close()

	ctx, cancel := context.WithCancel(context.Background())
	cancel()
	if err := cli.Notify(ctx, "N", nil); err != context.Canceled {
		t.Errorf("Notify with a cancelled context: got %v, want %v (records transmitted: %d)",
			err, context.Canceled, sent.Load())
	}

	dctx, dcancel := context.WithDeadline(context.Background(), time.Now().Add(-time.Second))
	defer dcancel()
	if err := cli.Notify(dctx, "N", nil); err != context.DeadlineExceeded {
		t.Errorf("Notify with an expired context: got %v, want %v (records transmitted: %d)",
			err, context.DeadlineExceeded, sent.Load())
	}
}
