// Finding 5 (C05): Client.send creates a cancellable context per request
// (newPending) before it knows whether the batch can be sent, and drops the
// cancel functions when it cannot (client already stopped, or Send fails).
// Each such call leaves a context registered with its parent until the parent
// ends - a goroutine per call when the caller's context type is not one of
// package context's own.
//
// Copy to: the repository root (package directory of github.com/creachadair/jrpc2)
// Run:     go test -vet=off -timeout 120s -count=1 -run 'TestFinding5' .
package jrpc2_test

import (
	"context"
	"errors"
	"io"
	"runtime"
	"strings"
	"sync"
	"testing"
	"time"

	"github.com/creachadair/jrpc2"
	"github.com/creachadair/jrpc2/channel"
)

// peer5 is a channel.Channel standing in for the peer. Every record the client
// sends is handed to onSend, which may queue records for the client to receive
// and may end the stream (EOF after the queued records).
type peer5 struct {
	mu     sync.Mutex
	cond   *sync.Cond
	queue  [][]byte
	eof    bool
	closed bool
	onSend func(p *peer5, msg []byte)
}

func newPeer5(onSend func(*peer5, []byte)) *peer5 {
	p := &peer5{onSend: onSend}
	p.cond = sync.NewCond(&p.mu)
	return p
}

func (p *peer5) push(recs ...string) {
	p.mu.Lock()
	for _, r := range recs {
		p.queue = append(p.queue, []byte(r))
	}
	p.mu.Unlock()
	p.cond.Broadcast()
}

func (p *peer5) end() {
	p.mu.Lock()
	p.eof = true
	p.mu.Unlock()
	p.cond.Broadcast()
}

func (p *peer5) Send(msg []byte) error {
	if p.onSend != nil {
		p.onSend(p, append([]byte(nil), msg...))
	}
	return nil
}

func (p *peer5) Recv() ([]byte, error) {
	p.mu.Lock()
	defer p.mu.Unlock()
	for len(p.queue) == 0 && !p.eof && !p.closed {
		p.cond.Wait()
	}
	if len(p.queue) != 0 {
		r := p.queue[0]
		p.queue = p.queue[1:]
		return r, nil
	}
	if p.eof {
		return nil, io.EOF
	}
	return nil, channel.ErrClosed
}

func (p *peer5) Close() error {
	p.mu.Lock()
	p.closed = true
	p.mu.Unlock()
	p.cond.Broadcast()
	return nil
}

// userCtx5 is a context implemented outside package context (as frameworks
// do). It stays live during the calls.
type userCtx5 struct{ done chan struct{} }

func (userCtx5) Deadline() (time.Time, bool) { return time.Time{}, false }
func (c userCtx5) Done() <-chan struct{}     { return c.done }
func (userCtx5) Value(any) any               { return nil }
func (c userCtx5) Err() error {
	select {
	case <-c.done:
		return context.Canceled
	default:
		return nil
	}
}

// watchers5 counts the goroutines package context starts to watch a foreign
// parent on behalf of a child that has not been cancelled.
func watchers5() int {
	buf := make([]byte, 4<<20)
	buf = buf[:runtime.Stack(buf, true)]
	return strings.Count(string(buf), "created by context.(*cancelCtx).propagateCancel")
}

type failSend5 struct{ *peer5 }

func (failSend5) Send([]byte) error { return errors.New("send failed") }

func TestFinding5_FailedSendLeaksWatchers(t *testing.T) {
	const n = 50

	t.Run("stopped client", func(t *testing.T) {
		cli := jrpc2.NewClient(newPeer5(nil), nil)
		cli.Close()
		ctx := userCtx5{done: make(chan struct{})}
		defer close(ctx.done)

		before := watchers5()
		for i := 0; i < n; i++ {
			if _, err := cli.Call(ctx, "M", nil); err == nil {
				t.Fatal("call on a closed client succeeded")
			}
		}
		time.Sleep(50 * time.Millisecond)
		if d := watchers5() - before; d >= n {
			t.Errorf("%d calls that failed at once on a closed client left %d context-watcher goroutines behind", n, d)
		}
	})

	t.Run("send error", func(t *testing.T) {
		time.Sleep(50 * time.Millisecond) // let the previous subtest settle
		cli := jrpc2.NewClient(failSend5{newPeer5(nil)}, nil)
		defer cli.Close()
		ctx := userCtx5{done: make(chan struct{})}
		defer close(ctx.done)

		before := watchers5()
		for i := 0; i < n; i++ {
			if _, err := cli.Call(ctx, "M", nil); err == nil {
				t.Fatal("call whose Send fails succeeded")
			}
		}
		time.Sleep(50 * time.Millisecond)
		if d := watchers5() - before; d >= n {
			t.Errorf("%d calls whose Send failed left %d context-watcher goroutines behind", n, d)
		}
	})
}
