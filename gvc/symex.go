package main

// Symbolic executor over go/ssa: path-wise, loops cut at their headers,
// calls replaced by contracts (or inlined when un-contracted and in-module).

import (
	"go/ast"
	"fmt"
	"go/constant"
	"go/token"
	"go/types"
	"strings"

	"golang.org/x/tools/go/ssa"
)

type FnExec struct {
	*Ctx
	fn        *ssa.Function
	fc        *FuncContract
	obls      []*Obligation
	paths     int
	pathCap   int
	heapSorts map[string]string
	vacSeen   map[string]int
	lemmaName string // set while a lemma is checked
	curResults []Term
	pendingWF []pendingWF
	curSite   ssa.Instruction // call site whose contract is being applied
	curFrame  *frame
	ords      map[*ssa.Function]map[ssa.Instruction]string
	// evidence notes
	inlined  map[string]bool
	havocked map[string]bool
	assumed  map[string]bool
	notes    []string
	loopsOf  map[*ssa.Function]*loopInfo
	fieldIDs map[string]int
	props    []string // property tags in scope
	truncated bool
	entryAlloc Term
	nolockset bool
	unboundLoops []string
	cellProv map[string]*LValue
	implQueries map[int]types.Type
	boundAsserts map[string]bool
	topAllowed   map[string]*frameAllow
	funcByConst  map[Term]*ssa.Function
	fnCodes      map[string]int
}

type frame struct {
	fn     *ssa.Function
	fc     *FuncContract // contract supplying loop invariants (may be nil)
	ret    func(st *State, results []Term)
	parent *frame
	defers *[]*deferRec
	tag    string // inline tag for obligation names
	bindings []Term
	bindLVs []*LValue
	visiting map[*ssa.BasicBlock]int
}

func newFnExec(p *Prog, fn *ssa.Function, fc *FuncContract) *FnExec {
	return &FnExec{Ctx: newCtx(p), fn: fn, fc: fc, pathCap: 4096, heapSorts: map[string]string{},
		ords: map[*ssa.Function]map[ssa.Instruction]string{}, inlined: map[string]bool{}, havocked: map[string]bool{},
		assumed: map[string]bool{}, loopsOf: map[*ssa.Function]*loopInfo{}, fieldIDs: map[string]int{}, implQueries: map[int]types.Type{}, boundAsserts: map[string]bool{}}
}

func (fx *FnExec) fnx() *FnExec { return fx }

func shortFn(fn *ssa.Function) string {
	if fn == nil {
		return "spec"
	}
	s := fn.String()
	s = strings.ReplaceAll(s, "github.com/creachadair/jrpc2/", "")
	s = strings.ReplaceAll(s, "github.com/creachadair/jrpc2.", "jrpc2.")
	s = strings.ReplaceAll(s, "(*", "")
	s = strings.ReplaceAll(s, "(", "")
	s = strings.ReplaceAll(s, ")", "")
	return s
}

func (fx *FnExec) emit(st *State, fr *frame, kind, detail string, goal Term, props []string, src string) {
	if goal == "true" {
		return
	}
	name := shortFn(fx.fn) + "#" + kind + ":" + detail
	if fr != nil && fr.tag != "" {
		name += "@" + fr.tag
	}
	o := &Obligation{Name: name, Kind: kind, Fn: shortFn(fx.fn), Props: props, Assumes: append([]Term(nil), st.pc...), Hints: append([]Term(nil), st.hints...), Goal: goal, Path: st.pathString(), Src: src, fx: fx}
	if kind == "ensures" && fr != nil && fr.parent == nil {
		o.Results = fx.curResults
	}
	fx.obls = append(fx.obls, o)
}

// vacuityStep guards one assumption step (the ensures of a callee's contract,
// loop invariants after the havoc, monitor invariants at Lock, an explicit
// assume): if the path condition is contradictory after the step but was not
// before it, what was assumed is inconsistent and everything proved after it
// on this path would be vacuous. At most two path instances per site.
func (fx *FnExec) vacuityStep(st *State, fr *frame, site string, preLen int) {
	if preLen >= len(st.pc) {
		return
	}
	name := shortFn(fx.fn) + "#vacuity:" + site
	if fr != nil && fr.tag != "" {
		name += "@" + fr.tag
	}
	if fx.vacSeen == nil {
		fx.vacSeen = map[string]int{}
	}
	if fx.vacSeen[name] >= 2 {
		return
	}
	fx.vacSeen[name]++
	fx.obls = append(fx.obls, &Obligation{Name: name, Kind: "vacuity", Fn: shortFn(fx.fn), Assumes: append([]Term(nil), st.pc...),
		Goal: "false", Invert: true, PreLen: preLen, Path: st.pathString()})
}

func (fx *FnExec) inLoopBody(fn *ssa.Function, site ssa.Instruction) bool {
	for _, h := range fx.loops(fn).headers {
		if h.body[site.Block()] {
			return true
		}
	}
	return false
}

type pendingWF struct {
	t   Term
	typ types.Type
}

// bindingFailure: a contract clause cannot be evaluated against the current
// source (an identifier it names is gone). The clause is reported as an
// obligation that cannot be discharged; verification of the rest goes on.
func (fx *FnExec) bindingFailure(st *State, fr *frame, what string, c Clause, err error) {
	name := shortFn(fx.fn) + "#binding:" + what
	for _, o := range fx.obls {
		if o.Name == name {
			return
		}
	}
	fx.obls = append(fx.obls, &Obligation{Name: name, Kind: "binding", Fn: shortFn(fx.fn), Props: c.Props, Assumes: nil,
		Goal: "false", Path: st.pathString(), Src: fmt.Sprintf("%s:%d: %v", c.File, c.Line, err)})
}

func (fx *FnExec) globalConst(pkg, name, srt string) Term {
	n := "G." + sanitize(pkg) + "." + name
	if !fx.declared[n] {
		fx.declare(n, fmt.Sprintf("(declare-const %s %s)", n, srt))
		// package-level values exist before any function runs
		fx.declare("alloc@0", "(declare-const alloc@0 Int)")
		switch srt {
		case "Int":
			if !strings.HasPrefix(name, "&") {
				fx.axiom("(<= " + n + " alloc@0)")
			}
		case "Iface":
			fx.axiom("(<= (ival " + n + ") alloc@0)")
		}
	}
	return n
}

func (fx *FnExec) fieldAddrTerm(structType types.Type, field string, base Term) Term {
	k := typeName(structType) + "." + field
	id, ok := fx.fieldIDs[k]
	if !ok {
		id = len(fx.fieldIDs) + 1
		fx.fieldIDs[k] = id
	}
	return fmt.Sprintf("(- (+ (* %s 1024) %d))", base, id)
}

// ---- instruction ordinals for stable names ----

func (fx *FnExec) ord(fn *ssa.Function, ins ssa.Instruction, key string) string {
	m := fx.ords[fn]
	if m == nil {
		m = map[ssa.Instruction]string{}
		counts := map[string]int{}
		for _, b := range fn.Blocks {
			for _, i := range b.Instrs {
				k := instrKey(i)
				if k == "" {
					continue
				}
				counts[k]++
				m[i] = fmt.Sprintf("%s#%d", k, counts[k])
			}
		}
		fx.ords[fn] = m
	}
	if s, ok := m[ins]; ok {
		return s
	}
	return key
}

func instrKey(i ssa.Instruction) string {
	switch x := i.(type) {
	case *ssa.FieldAddr:
		st := x.X.Type().Underlying().(*types.Pointer).Elem().Underlying().(*types.Struct)
		return "field." + st.Field(x.Field).Name()
	case *ssa.IndexAddr:
		return "index"
	case *ssa.Index:
		return "index"
	case *ssa.Lookup:
		return "lookup"
	case *ssa.Slice:
		return "slice"
	case *ssa.MakeSlice:
		return "makeslice"
	case *ssa.Send:
		return "send"
	case *ssa.Panic:
		return "panic"
	case *ssa.TypeAssert:
		return "typeassert"
	case *ssa.MapUpdate:
		return "mapupdate"
	case *ssa.Call:
		return "call." + calleeName(x.Common())
	case *ssa.Go:
		return "go." + calleeName(x.Common())
	case *ssa.Defer:
		return "defer." + calleeName(x.Common())
	case *ssa.UnOp:
		if x.Op == token.MUL {
			return "load"
		}
		if x.Op == token.ARROW {
			return "recv"
		}
	case *ssa.Store:
		return "store"
	case *ssa.BinOp:
		if x.Op == token.QUO || x.Op == token.REM {
			return "div"
		}
	case *ssa.Return:
		return "return"
	case *ssa.Select:
		return "select"
	case *ssa.MakeChan:
		return "makechan"
	}
	return ""
}

func calleeName(c *ssa.CallCommon) string {
	if c.IsInvoke() {
		return c.Method.Name()
	}
	switch v := c.Value.(type) {
	case *ssa.Function:
		return v.Name()
	case *ssa.Builtin:
		return v.Name()
	case *ssa.MakeClosure:
		return v.Fn.Name()
	}
	// through a value: describe by field/param name
	return describeFuncValue(c.Value)
}

func describeFuncValue(v ssa.Value) string {
	switch x := v.(type) {
	case *ssa.UnOp:
		if fa, ok := x.X.(*ssa.FieldAddr); ok {
			st := fa.X.Type().Underlying().(*types.Pointer).Elem().Underlying().(*types.Struct)
			return st.Field(fa.Field).Name()
		}
		if fv, ok := x.X.(*ssa.FreeVar); ok {
			return fv.Name()
		}
		if al, ok := x.X.(*ssa.Alloc); ok {
			return al.Comment
		}
	case *ssa.Parameter:
		return x.Name()
	case *ssa.FreeVar:
		return x.Name()
	case *ssa.Field:
		st := x.X.Type().Underlying().(*types.Struct)
		return st.Field(x.Field).Name()
	case *ssa.Phi:
		return x.Comment
	}
	return "funcvalue"
}

// ---- values ----

func (fx *FnExec) constTerm(c *ssa.Const) Term {
	t := c.Type()
	if c.Value == nil {
		// zero / nil
		if _, ok := t.Underlying().(*types.Basic); ok && t.Underlying().(*types.Basic).Kind() == types.UntypedNil {
			return "0"
		}
		return fx.zeroOf(t)
	}
	switch c.Value.Kind() {
	case constant.Bool:
		if constant.BoolVal(c.Value) {
			return "true"
		}
		return "false"
	case constant.Int:
		if b, ok := t.Underlying().(*types.Basic); ok && b.Info()&types.IsFloat != 0 {
			return fx.floatConst(c.Value.ExactString())
		}
		s := c.Value.ExactString()
		if strings.HasPrefix(s, "-") {
			return "(- " + s[1:] + ")"
		}
		return s
	case constant.String:
		return fx.strLit(constant.StringVal(c.Value))
	case constant.Float:
		return fx.floatConst(c.Value.ExactString())
	}
	panic(unsupported("constant " + c.String()))
}

func (fx *FnExec) floatConst(s string) Term {
	n := "f64c." + sanitize(s)
	fx.declare(n, fmt.Sprintf("(declare-const %s F64)", n))
	return n
}

func (st *State) val(v ssa.Value) Term {
	switch x := v.(type) {
	case *ssa.Const:
		return st.fx.constTerm(x)
	case *ssa.Function:
		return st.fx.funcConst(x)
	case *ssa.Global:
		// address of a global: represented by an lvalue; term is opaque
		return st.fx.globalConst(x.Pkg.Pkg.Path(), "&"+x.Name(), "Int")
	case *ssa.Builtin:
		panic(unsupported("builtin as value"))
	}
	if t, ok := st.vals[v]; ok {
		return t
	}
	panic(fmt.Sprintf("no value for %s (%T) in %s", v.Name(), v, v.Parent()))
}

func (fx *FnExec) funcConst(f *ssa.Function) Term {
	n := "fn." + sanitize(f.String())
	if !fx.declared[n] {
		fx.declare(n, fmt.Sprintf("(declare-const %s Int)", n))
		fx.axiom("(< " + n + " 0)")
		fx.declare("closcode", "(declare-fun closcode (Int) Int)")
		fx.axiom(fmt.Sprintf("(= (closcode %s) %d)", n, fx.fnCode(f)))
		if fx.funcByConst == nil {
			fx.funcByConst = map[Term]*ssa.Function{}
		}
		fx.funcByConst[n] = f
	}
	return n
}

// fnCode: a stable small integer identifying a function's code.
func (fx *FnExec) fnCode(f *ssa.Function) int {
	k := fnKey(f)
	if fx.fnCodes == nil {
		fx.fnCodes = map[string]int{}
	}
	if c, ok := fx.fnCodes[k]; ok {
		return c
	}
	c := len(fx.fnCodes) + 1
	fx.fnCodes[k] = c
	return c
}

// lvalue of a pointer-typed SSA value
func (st *State) lvOf(v ssa.Value) *LValue {
	if lv, ok := st.lvs[v]; ok {
		return lv
	}
	fx := st.fx
	if g, ok := v.(*ssa.Global); ok {
		et := g.Type().Underlying().(*types.Pointer).Elem()
		return &LValue{kind: lvHeap, heap: "Global", idx: "", elemSort: fx.sortOf(et), typ: et, fieldName: "global:" + g.Pkg.Pkg.Path() + "." + g.Name()}
	}
	// generic pointer: to struct -> not an lvalue (fields via heap); otherwise Cell
	pt, ok := v.Type().Underlying().(*types.Pointer)
	if !ok {
		panic(fmt.Sprintf("lvOf non-pointer %s", v))
	}
	et := pt.Elem()
	if _, isStruct := et.Underlying().(*types.Struct); isStruct {
		return nil
	}
	if _, isArr := et.Underlying().(*types.Array); isArr {
		return nil
	}
	srt := fx.sortOf(et)
	return &LValue{kind: lvHeap, heap: "Cell." + sanitize(srt), heapSort: arrOf(srt), idx: st.val(v), elemSort: srt, typ: et}
}

func isGlobalLV(lv *LValue) bool { return lv != nil && lv.heap == "Global" }

func (st *State) load(lv *LValue) Term {
	if isGlobalLV(lv) {
		name := strings.TrimPrefix(lv.fieldName, "global:")
		i := strings.LastIndex(name, ".")
		return st.fx.globalConst(name[:i], name[i+1:], lv.elemSort)
	}
	return st.loadLV(lv)
}

// struct load/store through a ref
func (st *State) loadStruct(ref Term, t types.Type) Term {
	fx := st.fx
	si := fx.structInfoOf(t)
	if si == nil || si.opaque {
		// opaque: value identified with content cell
		srt := fx.sortOf(t)
		return "(select " + st.heapGet("Cell."+sanitize(srt), arrOf(srt)) + " " + ref + ")"
	}
	stt := t.Underlying().(*types.Struct)
	var parts []string
	for i := 0; i < stt.NumFields(); i++ {
		hn := heapNameForField(t, stt.Field(i).Name())
		parts = append(parts, "(select "+st.heapGet(hn, arrOf(si.fsorts[i]))+" "+ref+")")
	}
	return "(mk." + si.sort + " " + strings.Join(parts, " ") + ")"
}

func (st *State) storeStruct(ref Term, t types.Type, v Term) {
	fx := st.fx
	si := fx.structInfoOf(t)
	if si == nil || si.opaque {
		srt := fx.sortOf(t)
		hn := "Cell." + sanitize(srt)
		st.heapSet(hn, arrOf(srt), "(store "+st.heapGet(hn, arrOf(srt))+" "+ref+" "+v+")")
		return
	}
	stt := t.Underlying().(*types.Struct)
	for i := 0; i < stt.NumFields(); i++ {
		hn := heapNameForField(t, stt.Field(i).Name())
		h := st.heapGet(hn, arrOf(si.fsorts[i]))
		st.heapSet(hn, arrOf(si.fsorts[i]), "(store "+h+" "+ref+" ("+si.fields[i]+" "+v+"))")
	}
}

// ---- running a function ----

// bindParams creates symbolic inputs for the top-level function.
func (fx *FnExec) initialState() *State {
	st := &State{fx: fx, vals: map[ssa.Value]Term{}, tups: map[ssa.Value][]Term{}, lvs: map[ssa.Value]*LValue{},
		heap: map[string]Term{}, clos: map[Term]*closureInfo{}, iters: map[ssa.Value]*iterInfo{}, arrs: map[Term]arrInfo{}, loopIters: map[string]*iterInfo{}}
	st.alloc = fx.constOf("alloc@0", "Int")
	fx.entryAlloc = st.alloc
	st.assume("(>= alloc@0 0)")
	return st
}

type pathEnd struct{}

func (fx *FnExec) execBlock(st *State, fr *frame, b *ssa.BasicBlock, pred *ssa.BasicBlock) {
	if st.dead {
		return
	}
	if fx.paths > fx.pathCap || len(fx.obls) > 60000 {
		fx.truncated = true
		return
	}
	st.path = append(st.path, fmt.Sprintf("%s.%d", fr.fn.Name(), b.Index))
	li := fx.loops(fr.fn)
	// loop header handling
	if h, isHeader := li.headers[b]; isHeader {
		if pred != nil && li.isBackEdge(pred, b) {
			fx.loopBack(st, fr, h, b, pred)
			return
		}
		if !fx.loopEnter(st, fr, h, b, pred) {
			return
		}
	} else {
		// ordinary phis
		fx.evalPhis(st, b, pred)
	}
	for _, ins := range b.Instrs {
		if _, isPhi := ins.(*ssa.Phi); isPhi {
			continue
		}
		cont := fx.step(st, fr, ins)
		if !cont {
			return
		}
	}
}

func (fx *FnExec) evalPhis(st *State, b *ssa.BasicBlock, pred *ssa.BasicBlock) {
	if pred == nil {
		return
	}
	idx := -1
	for i, p := range b.Preds {
		if p == pred {
			idx = i
			break
		}
	}
	type pv struct {
		phi *ssa.Phi
		t   Term
		lv  *LValue
	}
	var vs []pv
	for _, ins := range b.Instrs {
		phi, ok := ins.(*ssa.Phi)
		if !ok {
			break
		}
		e := phi.Edges[idx]
		p := pv{phi: phi, t: st.val(e)}
		if _, isPtr := phi.Type().Underlying().(*types.Pointer); isPtr {
			if lv, ok := st.lvs[e]; ok {
				p.lv = lv
			}
		}
		vs = append(vs, p)
	}
	var named map[string]ssa.Value
	for _, p := range vs {
		st.vals[p.phi] = p.t
		if p.lv != nil {
			st.lvs[p.phi] = p.lv
		} else {
			delete(st.lvs, p.phi)
		}
		if p.phi.Comment != "" {
			// the source variable of that name now denotes this phi
			if named == nil {
				named = make(map[string]ssa.Value, len(st.names)+len(vs))
				for k, v := range st.names {
					named[k] = v
				}
			}
			named[fmt.Sprintf("%p|%s", p.phi.Parent(), p.phi.Comment)] = p.phi
		}
	}
	if named != nil {
		st.names = named
	}
}

// step executes one instruction; returns false when the path ended or control
// was transferred (terminators handle successors themselves).
func (fx *FnExec) step(st *State, fr *frame, ins ssa.Instruction) bool {
	if v, ok := ins.(ssa.Value); ok {
		defer func() {
			if t, has := st.vals[v]; has && len(t) > 320 {
				if _, isTuple := v.Type().(*types.Tuple); !isTuple {
					st.vals[v] = st.nameIfLarge(t, fx.sortOf(v.Type()))
				}
			}
		}()
	}
	switch x := ins.(type) {
	case *ssa.DebugRef:
		// remember, per source name, the SSA value it denotes at this point of the path
		if id, ok := x.Expr.(*ast.Ident); ok && !x.IsAddr {
			if _, isConst := x.X.(*ssa.Const); !isConst {
				m := make(map[string]ssa.Value, len(st.names)+1)
				for k, v := range st.names {
					m[k] = v
				}
				m[fmt.Sprintf("%p|%s", x.Parent(), id.Name)] = x.X
				st.names = m
			}
		}
		return true
	case *ssa.Alloc:
		fx.doAlloc(st, x)
	case *ssa.FieldAddr:
		fx.doFieldAddr(st, fr, x)
	case *ssa.Field:
		sv := st.val(x.X)
		si := fx.structInfoOf(x.X.Type())
		if si == nil || si.opaque {
			panic(unsupported("field of opaque struct " + typeName(x.X.Type())))
		}
		st.vals[x] = "(" + si.fields[x.Field] + " " + sv + ")"
	case *ssa.IndexAddr:
		fx.doIndexAddr(st, fr, x)
	case *ssa.Index:
		xv := st.val(x.X)
		iv := st.val(x.Index)
		if b, ok := x.X.Type().Underlying().(*types.Basic); ok && b.Info()&types.IsString != 0 {
			fx.emit(st, fr, "bounds", fx.ord(fr.fn, x, "index"), "(and (<= 0 "+iv+") (< "+iv+" (strlen "+xv+")))", nil, "")
			st.vals[x] = "(strat " + xv + " " + iv + ")"
		} else {
			panic(unsupported("index of array value"))
		}
	case *ssa.Lookup:
		fx.doLookup(st, fr, x)
	case *ssa.UnOp:
		fx.doUnOp(st, fr, x)
	case *ssa.BinOp:
		fx.doBinOp(st, fr, x)
	case *ssa.Store:
		fx.doStore(st, fr, x)
	case *ssa.MapUpdate:
		fx.doMapUpdate(st, fr, x)
	case *ssa.Extract:
		tp := st.tups[x.Tuple]
		if tp == nil {
			panic(fmt.Sprintf("extract from non-tuple %s", x.Tuple))
		}
		st.vals[x] = tp[x.Index]
	case *ssa.MakeInterface:
		xv := st.val(x.X)
		srt := fx.sortOf(x.X.Type())
		st.vals[x] = fmt.Sprintf("(mkiface %d %s)", fx.typeID(x.X.Type()), fx.box(srt, xv))
	case *ssa.ChangeInterface:
		st.vals[x] = st.val(x.X)
	case *ssa.ChangeType:
		st.vals[x] = st.val(x.X)
		if lv, ok := st.lvs[x.X]; ok {
			st.lvs[x] = lv
		}
	case *ssa.Convert:
		fx.doConvert(st, fr, x)
	case *ssa.MakeMap:
		r := st.freshRef("map")
		mt := x.Type().Underlying().(*types.Map)
		ks, vs := fx.mapKV(mt)
		in := mapInName(ks, vs)
		ins := "(Array Int (Array " + ks + " Bool))"
		st.heapSet(in, ins, "(store "+st.heapGet(in, ins)+" "+r+" ((as const (Array "+ks+" Bool)) false))")
		st.heapSet("MapLen", arrOf("Int"), "(store "+st.heapGet("MapLen", arrOf("Int"))+" "+r+" 0)")
		st.vals[x] = r
	case *ssa.MakeSlice:
		fx.doMakeSlice(st, fr, x)
	case *ssa.MakeChan:
		r := st.freshRef("chan")
		sz := st.val(x.Size)
		fx.emit(st, fr, "make-size", fx.ord(fr.fn, x, "makechan"), "(and (<= 0 "+sz+") (<= "+sz+" 281474976710656))", nil, "")
		st.ghostStore("chancap", "Int", r, sz)
		st.ghostStore("chanlen", "Int", r, "0")
		st.ghostStore("chanclosed", "Bool", r, "false")
		st.ghostStore("chansends", "Int", r, "0")
		fx.declare("chan.type", "(declare-const chan.type (Array Int Int))")
		st.assume(fmt.Sprintf("(= (select chan.type %s) %d)", r, fx.typeID(x.Type().Underlying().(*types.Chan).Elem())))
		st.vals[x] = r
	case *ssa.MakeClosure:
		r := st.freshRef("clos")
		ci := &closureInfo{fn: x.Fn.(*ssa.Function)}
		for _, b := range x.Bindings {
			ci.bindings = append(ci.bindings, st.val(b))
			ci.bindLVs = append(ci.bindLVs, st.lvs[b])
			ci.bindVals = append(ci.bindVals, b)
		}
		st.clos[r] = ci
		st.vals[x] = r
		fx.declare("closcode", "(declare-fun closcode (Int) Int)")
		st.assume(fmt.Sprintf("(= (closcode %s) %d)", r, fx.fnCode(ci.fn)))
		fx.closureCaptures(st, fr, x, ci)
	case *ssa.Slice:
		fx.doSlice(st, fr, x)
	case *ssa.TypeAssert:
		fx.doTypeAssert(st, fr, x)
	case *ssa.Range:
		fx.doRange(st, fr, x)
	case *ssa.Next:
		return fx.doNext(st, fr, x)
	case *ssa.Call:
		return fx.doCallInstr(st, fr, x)
	case *ssa.Go:
		return fx.doGo(st, fr, x)
	case *ssa.Defer:
		fx.doDefer(st, fr, x)
	case *ssa.RunDefers:
		return fx.doRunDefers(st, fr, x)
	case *ssa.Send:
		fx.doSend(st, fr, x)
	case *ssa.Select:
		fx.doSelect(st, fr, x)
	case *ssa.Panic:
		mayPanic := fx.fc != nil && fx.fc.MayPanic && fr.parent == nil
		if !mayPanic {
			fx.emit(st, fr, "panic-unreachable", fx.ord(fr.fn, x, "panic"), "false", nil, "")
		}
		fx.paths++
		return false
	case *ssa.Jump:
		b := x.Block()
		fx.execBlock(st, fr, b.Succs[0], b)
		return false
	case *ssa.If:
		c := st.val(x.Cond)
		b := x.Block()
		if c == "true" {
			fx.execBlock(st, fr, b.Succs[0], b)
			return false
		}
		if c == "false" {
			fx.execBlock(st, fr, b.Succs[1], b)
			return false
		}
		s2 := st.clone()
		st.assume(c)
		fx.execBlock(st, fr, b.Succs[0], b)
		s2.assume("(not " + c + ")")
		fx.execBlock(s2, fr, b.Succs[1], b)
		return false
	case *ssa.Return:
		fx.ghostSets(st, fr, x)
		st.retSite = x
		var rs []Term
		for _, r := range x.Results {
			rs = append(rs, st.val(r))
		}
		fr.ret(st, rs)
		return false
	default:
		panic(unsupported(fmt.Sprintf("instruction %T", ins)))
	}
	return true
}

func (st *State) ghostStore(name, rsort string, idx Term, v Term) {
	hn := "ghost." + name
	hs := arrOf(rsort)
	st.heapSet(hn, hs, "(store "+st.heapGet(hn, hs)+" "+idx+" "+v+")")
}

func (st *State) ghostLoad(name, rsort string, idx Term) Term {
	return "(select " + st.heapGet("ghost."+name, arrOf(rsort)) + " " + idx + ")"
}

func (fx *FnExec) doAlloc(st *State, x *ssa.Alloc) {
	et := x.Type().Underlying().(*types.Pointer).Elem()
	switch u := et.Underlying().(type) {
	case *types.Struct:
		r := st.freshRef("new." + sanitize(typeName(et)))
		si := fx.structInfoOf(et)
		if si != nil && !si.opaque {
			for i := 0; i < u.NumFields(); i++ {
				hn := heapNameForField(et, u.Field(i).Name())
				h := st.heapGet(hn, arrOf(si.fsorts[i]))
				st.heapSet(hn, arrOf(si.fsorts[i]), "(store "+h+" "+r+" "+fx.zeroOfSort(si.fsorts[i])+")")
			}
		} else {
			fx.applyAllocContract(st, et, r)
		}
		st.vals[x] = r
	case *types.Array:
		r := st.freshRef("arr")
		es := fx.elemSort(u.Elem())
		mn := "Mem." + sanitize(es)
		ms := "(Array Int " + arrOf(es) + ")"
		st.heapSet(mn, ms, "(store "+st.heapGet(mn, ms)+" "+r+" ((as const "+arrOf(es)+") "+fx.zeroOfSort(es)+"))")
		st.vals[x] = r
		st.arrs[r] = arrInfo{n: u.Len(), esort: es, etyp: u.Elem()}
	default:
		a := st.freshRef("cell")
		srt := fx.sortOf(et)
		lv := &LValue{kind: lvHeap, heap: "Cell." + sanitize(srt), heapSort: arrOf(srt), idx: a, elemSort: srt, typ: et}
		st.storeLV(lv, fx.zeroOfSort(srt))
		st.vals[x] = a
		st.lvs[x] = lv
	}
}

// applyAllocContract: "func new:<type>" contracts give the initial ghost state
// of freshly allocated opaque objects (e.g. an empty bytes.Buffer).
func (fx *FnExec) applyAllocContract(st *State, t types.Type, r Term) {
	key := "new:" + typeName(t)
	for _, fc := range fx.P.Specs.Funcs[key] {
		env := &evalEnv{fx: fx, st: st, vars: map[string]cval{"result": {t: r, sort: "Int", typ: types.NewPointer(t)}}}
		for _, c := range fc.Ensures {
			v, err := env.safeEval(c.Expr)
			if err != nil {
				panic(fmt.Sprintf("%s:%d: %v", c.File, c.Line, err))
			}
			st.assume(v.t)
		}
		fx.assumed[key] = true
	}
}

func (fx *FnExec) nonnil(st *State, fr *frame, v ssa.Value, t Term, ins ssa.Instruction, what string) {
	switch v.(type) {
	case *ssa.Alloc, *ssa.MakeClosure, *ssa.Function, *ssa.Global, *ssa.MakeMap, *ssa.MakeChan, *ssa.FieldAddr, *ssa.IndexAddr:
		return
	}
	fx.emit(st, fr, "nonnil", what, "(not (= "+t+" 0))", nil, "")
}

func (fx *FnExec) doFieldAddr(st *State, fr *frame, x *ssa.FieldAddr) {
	pt := x.X.Type().Underlying().(*types.Pointer).Elem()
	stt := pt.Underlying().(*types.Struct)
	f := stt.Field(x.Field)
	// nested struct lvalue?
	if plv, ok := st.lvs[x.X]; ok && plv != nil {
		si := fx.structInfoOf(pt)
		if si == nil || si.opaque {
			panic(unsupported("field of opaque nested struct"))
		}
		lv := &LValue{kind: lvSub, parent: plv, fieldIdx: x.Field, si: si, elemSort: si.fsorts[x.Field], typ: f.Type()}
		st.lvs[x] = lv
		st.vals[x] = fx.freshConst("subaddr", "Int")
		return
	}
	base := st.val(x.X)
	fx.nonnil(st, fr, x.X, base, x, fx.ord(fr.fn, x, "field."+f.Name()))
	fs := fx.sortOf(f.Type())
	lv := &LValue{kind: lvHeap, heap: heapNameForField(pt, f.Name()), heapSort: arrOf(fs), idx: base, elemSort: fs, typ: f.Type(), fieldOf: pt, fieldName: f.Name(), base: base}
	st.lvs[x] = lv
	st.vals[x] = fx.fieldAddrTerm(pt, f.Name(), base)
}

func (fx *FnExec) doIndexAddr(st *State, fr *frame, x *ssa.IndexAddr) {
	iv := st.val(x.Index)
	xv := st.val(x.X)
	switch u := x.X.Type().Underlying().(type) {
	case *types.Slice:
		es := fx.elemSort(u.Elem())
		fx.emit(st, fr, "bounds", fx.ord(fr.fn, x, "index"), "(and (<= 0 "+iv+") (< "+iv+" (slen "+xv+")))", nil, "")
		st.lvs[x] = &LValue{kind: lvElem, heap: "Mem." + sanitize(es), heapSort: "(Array Int " + arrOf(es) + ")", idx: "(sptr " + xv + ")", idx2: iv, off: "(soff " + xv + ")", elemSort: es, typ: u.Elem()}
		st.vals[x] = "0"
	case *types.Pointer:
		at := u.Elem().Underlying().(*types.Array)
		es := fx.elemSort(at.Elem())
		fx.emit(st, fr, "bounds", fx.ord(fr.fn, x, "index"), fmt.Sprintf("(and (<= 0 %s) (< %s %d))", iv, iv, at.Len()), nil, "")
		st.lvs[x] = &LValue{kind: lvElem, heap: "Mem." + sanitize(es), heapSort: "(Array Int " + arrOf(es) + ")", idx: xv, idx2: iv, elemSort: es, typ: at.Elem()}
		st.vals[x] = "0"
	default:
		panic(unsupported("indexaddr on " + typeName(x.X.Type())))
	}
}

func (fx *FnExec) doLookup(st *State, fr *frame, x *ssa.Lookup) {
	xv := st.val(x.X)
	kv := st.val(x.Index)
	if mt, ok := x.X.Type().Underlying().(*types.Map); ok {
		fx.locksetMap(st, fr, x.X, x)
		ks, vs := fx.mapKV(mt)
		in := "(select (select " + st.heapGet(mapInName(ks, vs), "(Array Int (Array "+ks+" Bool))") + " " + xv + ") " + kv + ")"
		val := "(select (select " + st.heapGet(mapValName(ks, vs), "(Array Int (Array "+ks+" "+vs+"))") + " " + xv + ") " + kv + ")"
		in = "(and (not (= " + xv + " 0)) " + in + ")"
		v := "(ite " + in + " " + val + " " + fx.zeroOfSort(vs) + ")"
		if x.CommaOk {
			st.tups[x] = []Term{v, in}
		} else {
			st.vals[x] = v
		}
		return
	}
	// string index
	fx.emit(st, fr, "bounds", fx.ord(fr.fn, x, "lookup"), "(and (<= 0 "+kv+") (< "+kv+" (strlen "+xv+")))", nil, "")
	st.vals[x] = "(strat " + xv + " " + kv + ")"
}

func (fx *FnExec) doMapUpdate(st *State, fr *frame, x *ssa.MapUpdate) {
	m := st.val(x.Map)
	k := st.val(x.Key)
	v := st.val(x.Value)
	mt := x.Map.Type().Underlying().(*types.Map)
	fx.locksetMap(st, fr, x.Map, x)
	if _, ok := x.Map.(*ssa.MakeMap); !ok {
		fx.emit(st, fr, "map-nil", fx.ord(fr.fn, x, "mapupdate"), "(not (= "+m+" 0))", nil, "")
	}
	{
		ks, vs := fx.mapKV(mt)
		st.mapStore(m, ks, vs, k, v)
	}
}

func (st *State) mapStore(m Term, ks, vs string, k, v Term) {
	inN, inS := mapInName(ks, vs), "(Array Int (Array "+ks+" Bool))"
	vN, vS := mapValName(ks, vs), "(Array Int (Array "+ks+" "+vs+"))"
	inH := st.heapGet(inN, inS)
	vH := st.heapGet(vN, vS)
	lenH := st.heapGet("MapLen", arrOf("Int"))
	was := "(select (select " + inH + " " + m + ") " + k + ")"
	st.heapSet("MapLen", arrOf("Int"), "(store "+lenH+" "+m+" (ite "+was+" (select "+lenH+" "+m+") (+ (select "+lenH+" "+m+") 1)))")
	st.heapSet(inN, inS, "(store "+inH+" "+m+" (store (select "+inH+" "+m+") "+k+" true))")
	st.heapSet(vN, vS, "(store "+vH+" "+m+" (store (select "+vH+" "+m+") "+k+" "+v+"))")
}

func (st *State) mapDelete(m Term, ks, vs string, k Term) {
	inN, inS := mapInName(ks, vs), "(Array Int (Array "+ks+" Bool))"
	inH := st.heapGet(inN, inS)
	lenH := st.heapGet("MapLen", arrOf("Int"))
	was := "(select (select " + inH + " " + m + ") " + k + ")"
	st.heapSet("MapLen", arrOf("Int"), "(store "+lenH+" "+m+" (ite "+was+" (- (select "+lenH+" "+m+") 1) (select "+lenH+" "+m+")))")
	st.heapSet(inN, inS, "(store "+inH+" "+m+" (store (select "+inH+" "+m+") "+k+" false))")
}

func (fx *FnExec) doStore(st *State, fr *frame, x *ssa.Store) {
	v := st.val(x.Val)
	et := x.Addr.Type().Underlying().(*types.Pointer).Elem()
	lv := st.lvOf(x.Addr)
	if lv == nil {
		// pointer to struct: whole-struct store
		ref := st.val(x.Addr)
		fx.nonnil(st, fr, x.Addr, ref, x, fx.ord(fr.fn, x, "store"))
		st.storeStruct(ref, et, v)
		return
	}
	if isGlobalLV(lv) {
		if fr.fn.Name() == "init" {
			// package initialisation: record as fact about the global constant
			name := strings.TrimPrefix(lv.fieldName, "global:")
			i := strings.LastIndex(name, ".")
			g := fx.globalConst(name[:i], name[i+1:], lv.elemSort)
			st.assume("(= " + g + " " + v + ")")
			return
		}
		panic(unsupported("store to global " + lv.fieldName))
	}
	fx.lockset(st, fr, lv, x, true)
	fx.immutableStore(st, fr, lv, x)
	st.storeLV(lv, v)
	// keep pointer provenance when storing pointers into cells (captured variables)
	if _, isPtr := et.Underlying().(*types.Pointer); isPtr {
		if plv, ok := st.lvs[x.Val]; ok && plv != nil && lv.kind == lvHeap {
			st.fx.cellLVs(st)[lv.heap+"|"+lv.idx] = plv
		}
	}
}

func (fx *FnExec) cellLVs(st *State) map[string]*LValue {
	// provenance side table is per FnExec (keys are fresh cell names, unique)
	if fx.cellProv == nil {
		fx.cellProv = map[string]*LValue{}
	}
	return fx.cellProv
}

func (fx *FnExec) doUnOp(st *State, fr *frame, x *ssa.UnOp) {
	switch x.Op {
	case token.MUL: // load
		et := x.Type()
		lv := st.lvOf(x.X)
		if lv == nil {
			ref := st.val(x.X)
			fx.nonnil(st, fr, x.X, ref, x, fx.ord(fr.fn, x, "load"))
			st.vals[x] = st.loadStruct(ref, et)
			return
		}
		if !isGlobalLV(lv) {
			fx.lockset(st, fr, lv, x, false)
		}
		v := st.load(lv)
		st.vals[x] = v
		// recover pointer provenance for pointers kept in cells
		if _, isPtr := et.Underlying().(*types.Pointer); isPtr && lv.kind == lvHeap && fx.cellProv != nil {
			if plv, ok := fx.cellProv[lv.heap+"|"+lv.idx]; ok {
				st.lvs[x] = plv
			}
		}
		if lv.fieldOf != nil {
			fx.noteFieldLoad(st, x, lv)
		}
		switch et.Underlying().(type) {
		case *types.Pointer, *types.Map, *types.Chan, *types.Slice, *types.Interface:
			if !isGlobalLV(lv) {
				st.assumeWF(v, et)
			}
		case *types.Basic:
			// a machine integer read from memory is within its type's range
			st.assumeWF(v, et)
		}
	case token.NOT:
		st.vals[x] = "(not " + st.val(x.X) + ")"
	case token.SUB:
		if b, ok := x.Type().Underlying().(*types.Basic); ok && b.Info()&types.IsFloat != 0 {
			fx.declare("f64.neg", "(declare-fun f64.neg (F64) F64)")
			st.vals[x] = "(f64.neg " + st.val(x.X) + ")"
			return
		}
		_, _, w, _ := intRange(x.Type())
		st.vals[x] = "(" + w + " (- " + st.val(x.X) + "))"
	case token.ARROW:
		fx.doRecv(st, fr, x)
	case token.XOR:
		panic(unsupported("bitwise not"))
	default:
		panic(unsupported("unop " + x.Op.String()))
	}
}

// noteFieldLoad remembers from which field a value was loaded (for monitors,
// roles and lockset on maps).
func (fx *FnExec) noteFieldLoad(st *State, v ssa.Value, lv *LValue) {}

func (fx *FnExec) doBinOp(st *State, fr *frame, x *ssa.BinOp) {
	a, b := st.val(x.X), st.val(x.Y)
	t := x.X.Type()
	srt := fx.sortOf(t)
	var r Term
	switch x.Op {
	case token.EQL, token.NEQ:
		switch srt {
		case "Slice":
			// only comparison with nil is legal
			if c, ok := x.Y.(*ssa.Const); ok && c.Value == nil {
				r = "(= (sptr " + a + ") 0)"
			} else {
				r = "(= (sptr " + b + ") 0)"
			}
		case "Iface":
			if c, ok := x.Y.(*ssa.Const); ok && c.Value == nil {
				r = "(= (ityp " + a + ") 0)"
			} else if c, ok := x.X.(*ssa.Const); ok && c.Value == nil {
				r = "(= (ityp " + b + ") 0)"
			} else {
				r = "(= " + a + " " + b + ")"
			}
		default:
			r = "(= " + a + " " + b + ")"
		}
		if x.Op == token.NEQ {
			r = "(not " + r + ")"
		}
	case token.LSS, token.LEQ, token.GTR, token.GEQ:
		op := map[token.Token]string{token.LSS: "<", token.LEQ: "<=", token.GTR: ">", token.GEQ: ">="}[x.Op]
		switch srt {
		case "Int":
			r = "(" + op + " " + a + " " + b + ")"
		case "Str":
			fx.declare("str.lt", "(declare-fun str.lt (Str Str) Bool)")
			switch x.Op {
			case token.LSS:
				r = "(str.lt " + a + " " + b + ")"
			case token.GTR:
				r = "(str.lt " + b + " " + a + ")"
			case token.LEQ:
				r = "(not (str.lt " + b + " " + a + "))"
			default:
				r = "(not (str.lt " + a + " " + b + "))"
			}
		case "F64":
			fx.declare("f64.lt", "(declare-fun f64.lt (F64 F64) Bool)")
			fx.declare("f64.le", "(declare-fun f64.le (F64 F64) Bool)")
			switch x.Op {
			case token.LSS:
				r = "(f64.lt " + a + " " + b + ")"
			case token.GTR:
				r = "(f64.lt " + b + " " + a + ")"
			case token.LEQ:
				r = "(f64.le " + a + " " + b + ")"
			default:
				r = "(f64.le " + b + " " + a + ")"
			}
		default:
			panic(unsupported("ordered comparison on " + srt))
		}
	case token.ADD, token.SUB, token.MUL:
		switch srt {
		case "Int":
			_, _, w, _ := intRange(x.Type())
			op := map[token.Token]string{token.ADD: "+", token.SUB: "-", token.MUL: "*"}[x.Op]
			r = "(" + w + " (" + op + " " + a + " " + b + "))"
		case "Str":
			if x.Op != token.ADD {
				panic(unsupported("string op"))
			}
			fx.ensureConcat()
			r = "(str.concat " + a + " " + b + ")"
		case "F64":
			n := map[token.Token]string{token.ADD: "f64.add", token.SUB: "f64.sub", token.MUL: "f64.mul"}[x.Op]
			fx.declare(n, "(declare-fun "+n+" (F64 F64) F64)")
			r = "(" + n + " " + a + " " + b + ")"
		default:
			panic(unsupported("arith on " + srt))
		}
	case token.QUO, token.REM:
		if srt != "Int" {
			panic(unsupported("division on " + srt))
		}
		if _, isConst := x.Y.(*ssa.Const); !isConst {
			fx.emit(st, fr, "div-zero", fx.ord(fr.fn, x, "div"), "(not (= "+b+" 0))", nil, "")
		}
		// Go truncates toward zero
		q := "(ite (>= " + a + " 0) (ite (> " + b + " 0) (div " + a + " " + b + ") (- (div " + a + " (- " + b + ")))) (ite (> " + b + " 0) (- (div (- " + a + ") " + b + ")) (div (- " + a + ") (- " + b + "))))"
		if x.Op == token.QUO {
			_, _, w, _ := intRange(x.Type())
			r = "(" + w + " " + q + ")"
		} else {
			r = "(- " + a + " (* " + b + " " + q + "))"
		}
	case token.LAND, token.AND, token.OR, token.XOR, token.SHL, token.SHR, token.AND_NOT:
		if srt == "Bool" {
			switch x.Op {
			case token.AND:
				r = "(and " + a + " " + b + ")"
			case token.OR:
				r = "(or " + a + " " + b + ")"
			case token.XOR:
				r = "(xor " + a + " " + b + ")"
			}
		}
		if r == "" {
			// bit operations: uninterpreted, range-constrained
			n := "bitop." + sanitize(x.Op.String())
			fx.declare(n, "(declare-fun "+n+" (Int Int) Int)")
			r = "(" + n + " " + a + " " + b + ")"
			st.vals[x] = r
			st.assumeWF(r, x.Type())
			return
		}
	default:
		panic(unsupported("binop " + x.Op.String()))
	}
	st.vals[x] = r
}

func (fx *FnExec) ensureConcat() {
	fx.declare("str.concat", "(declare-fun str.concat (Str Str) Str)")
	fx.axiom("(forall ((a Str) (b Str)) (! (= (strlen (str.concat a b)) (+ (strlen a) (strlen b))) :pattern ((str.concat a b))))")
	fx.axiom("(forall ((a Str) (b Str) (i Int)) (! (=> (and (<= 0 i) (< i (+ (strlen a) (strlen b)))) (= (strat (str.concat a b) i) (ite (< i (strlen a)) (strat a i) (strat b (- i (strlen a)))))) :pattern ((strat (str.concat a b) i))))")
}

func (fx *FnExec) doConvert(st *State, fr *frame, x *ssa.Convert) {
	from, to := x.X.Type().Underlying(), x.Type().Underlying()
	v := st.val(x.X)
	fs, ts := fx.sortOf(x.X.Type()), fx.sortOf(x.Type())
	switch {
	case fs == "Int" && ts == "Int":
		_, _, w, ok := intRange(x.Type())
		if ok {
			// widening conversions keep the value
			flo, fhi, _, fok := intRange(x.X.Type())
			tlo, thi, _, _ := intRange(x.Type())
			if fok && within(flo, fhi, tlo, thi) {
				st.vals[x] = v
			} else {
				st.vals[x] = "(" + w + " " + v + ")"
			}
		} else {
			st.vals[x] = v
		}
	case fs == "Slice" && ts == "Str":
		bmn, bms := fx.byteMem()
		mem := st.heapGet(bmn, bms)
		st.vals[x] = fmt.Sprintf("(bstr (select %s (sptr %s)) (soff %s) (slen %s))", mem, v, v, v)
	case fs == "Str" && ts == "Slice":
		// fresh backing array holding the bytes of the string
		r := st.freshRef("bytes")
		arr := fx.freshConst("bytesarr", arrOf("Int"))
		st.assume(fmt.Sprintf("(forall ((i Int)) (! (=> (and (<= 0 i) (< i (strlen %s))) (= (select %s i) (strat %s i))) :pattern ((select %s i))))", v, arr, v, arr))
		mn, ms := fx.byteMem()
		st.heapSet(mn, ms, "(store "+st.heapGet(mn, ms)+" "+r+" "+arr+")")
		// string(b) of the result is the same string: record for precision
		sl := fmt.Sprintf("(mkslice %s 0 (strlen %s) (strlen %s))", r, v, v)
		// a zero-length conversion yields a non-nil empty slice in Go only for non-empty... keep non-nil (ptr>0)
		st.assume(fmt.Sprintf("(= (bstr %s 0 (strlen %s)) %s)", arr, v, v))
		st.vals[x] = sl
	case fs == "Int" && ts == "F64":
		fx.declare("f64.fromint", "(declare-fun f64.fromint (Int) F64)")
		st.vals[x] = "(f64.fromint " + v + ")"
	case fs == "F64" && ts == "Int":
		fx.declare("f64.toint", "(declare-fun f64.toint (F64) Int)")
		r := "(f64.toint " + v + ")"
		st.vals[x] = r
		st.assumeWF(r, x.Type())
	case fs == "F64" && ts == "F64":
		st.vals[x] = v
	case fs == "Int" && ts == "Str":
		fx.declare("str.fromrune", "(declare-fun str.fromrune (Int) Str)")
		st.vals[x] = "(str.fromrune " + v + ")"
	default:
		_ = from
		_ = to
		panic(unsupported(fmt.Sprintf("convert %s -> %s", typeName(x.X.Type()), typeName(x.Type()))))
	}
}

func within(flo, fhi, tlo, thi string) bool {
	// compare decimal strings of the known ranges
	rank := map[string]int{"(- 9223372036854775808)": -64, "(- 2147483648)": -32, "(- 32768)": -16, "(- 128)": -8, "0": 0}
	hrank := map[string]int{"127": 7, "255": 8, "32767": 15, "65535": 16, "2147483647": 31, "4294967295": 32, "9223372036854775807": 63, "18446744073709551615": 64}
	return rank[flo] >= rank[tlo] && hrank[fhi] <= hrank[thi]
}

func elemSize(t types.Type) int64 {
	switch u := t.Underlying().(type) {
	case *types.Basic:
		switch u.Kind() {
		case types.Bool, types.Int8, types.Uint8:
			return 1
		case types.Int16, types.Uint16:
			return 2
		case types.Int32, types.Uint32, types.Float32:
			return 4
		case types.String:
			return 16
		}
		return 8
	case *types.Slice:
		return 24
	case *types.Interface:
		return 16
	case *types.Struct:
		var n int64
		for i := 0; i < u.NumFields(); i++ {
			n += elemSize(u.Field(i).Type())
		}
		if n == 0 {
			n = 1
		}
		return n
	}
	return 8
}

const maxAlloc = int64(1) << 48

func (fx *FnExec) doMakeSlice(st *State, fr *frame, x *ssa.MakeSlice) {
	ln, cp := st.val(x.Len), st.val(x.Cap)
	et := x.Type().Underlying().(*types.Slice).Elem()
	es := fx.elemSort(et)
	lim := maxAlloc / elemSize(et)
	_, lenConst := x.Len.(*ssa.Const)
	_, capConst := x.Cap.(*ssa.Const)
	if !(lenConst && capConst) {
		fx.emit(st, fr, "make-size", fx.ord(fr.fn, x, "makeslice"),
			fmt.Sprintf("(and (<= 0 %s) (<= %s %s) (<= %s %d))", ln, ln, cp, cp, lim), nil, "")
	}
	r := st.freshRef("slice")
	mn, ms := "Mem."+sanitize(es), "(Array Int "+arrOf(es)+")"
	st.heapSet(mn, ms, "(store "+st.heapGet(mn, ms)+" "+r+" ((as const "+arrOf(es)+") "+fx.zeroOfSort(es)+"))")
	st.vals[x] = fmt.Sprintf("(mkslice %s 0 %s %s)", r, ln, cp)
}

func (fx *FnExec) doSlice(st *State, fr *frame, x *ssa.Slice) {
	xv := st.val(x.X)
	lo := "0"
	if x.Low != nil {
		lo = st.val(x.Low)
	}
	name := fx.ord(fr.fn, x, "slice")
	switch u := x.X.Type().Underlying().(type) {
	case *types.Slice:
		hi := "(slen " + xv + ")"
		if x.High != nil {
			hi = st.val(x.High)
		}
		mx := "(scap " + xv + ")"
		if x.Max != nil {
			mx = st.val(x.Max)
		}
		if x.Low != nil || x.High != nil || x.Max != nil {
			fx.emit(st, fr, "slice", name, fmt.Sprintf("(and (<= 0 %s) (<= %s %s) (<= %s %s) (<= %s (scap %s)))", lo, lo, hi, hi, mx, mx, xv), nil, "")
		}
		// slicing nil with 0:0 stays nil
		st.vals[x] = fmt.Sprintf("(ite (= (sptr %s) 0) nilslice (mkslice (sptr %s) (+ (soff %s) %s) (- %s %s) (- %s %s)))", xv, xv, xv, lo, hi, lo, mx, lo)
		_ = u
	case *types.Basic: // string
		hi := "(strlen " + xv + ")"
		if x.High != nil {
			hi = st.val(x.High)
		}
		fx.emit(st, fr, "slice", name, fmt.Sprintf("(and (<= 0 %s) (<= %s %s) (<= %s (strlen %s)))", lo, lo, hi, hi, xv), nil, "")
		fx.ensureSubstr()
		st.vals[x] = fmt.Sprintf("(str.sub %s %s %s)", xv, lo, hi)
	case *types.Pointer: // *array
		at := u.Elem().Underlying().(*types.Array)
		hi := fmt.Sprint(at.Len())
		if x.High != nil {
			hi = st.val(x.High)
		}
		if x.Low != nil || x.High != nil {
			fx.emit(st, fr, "slice", name, fmt.Sprintf("(and (<= 0 %s) (<= %s %s) (<= %s %d))", lo, lo, hi, hi, at.Len()), nil, "")
		}
		st.vals[x] = fmt.Sprintf("(mkslice %s %s (- %s %s) (- %d %s))", xv, lo, hi, lo, at.Len(), lo)
	default:
		panic(unsupported("slice of " + typeName(x.X.Type())))
	}
}

func (fx *FnExec) ensureSubstr() {
	fx.declare("str.sub", "(declare-fun str.sub (Str Int Int) Str)")
	fx.axiom("(forall ((s Str) (a Int) (b Int)) (! (=> (and (<= 0 a) (<= a b) (<= b (strlen s))) (= (strlen (str.sub s a b)) (- b a))) :pattern ((str.sub s a b))))")
	fx.axiom("(forall ((s Str) (a Int) (b Int) (i Int)) (! (=> (and (<= 0 a) (<= a b) (<= b (strlen s)) (<= 0 i) (< i (- b a))) (= (strat (str.sub s a b) i) (strat s (+ a i)))) :pattern ((strat (str.sub s a b) i))))")
	fx.axiom("(forall ((s Str)) (! (= (str.sub s 0 (strlen s)) s) :pattern ((str.sub s 0 (strlen s)))))")
}

func (fx *FnExec) doTypeAssert(st *State, fr *frame, x *ssa.TypeAssert) {
	v := st.val(x.X)
	var ok, res Term
	if _, isIface := x.AssertedType.Underlying().(*types.Interface); isIface {
		iid := fx.typeID(x.AssertedType)
		fn := fmt.Sprintf("impl.%d", iid)
		fx.declare(fn, fmt.Sprintf("(declare-fun %s (Int) Bool)", fn))
		fx.axiom("(not (" + fn + " 0))")
		fx.implQueries[iid] = x.AssertedType
		ok = "(" + fn + " (ityp " + v + "))"
		res = v
	} else {
		tid := fx.typeID(x.AssertedType)
		ok = fmt.Sprintf("(= (ityp %s) %d)", v, tid)
		res = fx.unbox(fx.sortOf(x.AssertedType), "(ival "+v+")")
	}
	if x.CommaOk {
		zero := fx.zeroOf(x.AssertedType)
		st.tups[x] = []Term{"(ite " + ok + " " + res + " " + zero + ")", ok}
	} else {
		fx.emit(st, fr, "type-assert", fx.ord(fr.fn, x, "typeassert"), ok, nil, "")
		st.assume(ok)
		st.vals[x] = res
	}
	if _, isPtr := x.AssertedType.Underlying().(*types.Pointer); isPtr {
		if x.CommaOk {
			st.assume("(<= " + st.tups[x][0] + " " + st.alloc + ")")
		}
	}
}

func (fx *FnExec) doRange(st *State, fr *frame, x *ssa.Range) {
	switch u := x.X.Type().Underlying().(type) {
	case *types.Map:
		ks, vs := fx.mapKV(u)
		fx.locksetMap(st, fr, x.X, x)
		vis := fx.freshConst("visited", "(Array "+ks+" Bool)")
		st.assume("(= " + vis + " ((as const (Array " + ks + " Bool)) false))")
		st.iters[x] = &iterInfo{mapTerm: st.val(x.X), ks: ks, vs: vs, visited: vis}
		st.vals[x] = "0"
	default:
		panic(unsupported("range over " + typeName(x.X.Type())))
	}
}

func (fx *FnExec) doNext(st *State, fr *frame, x *ssa.Next) bool {
	it := st.iters[x.Iter]
	if it == nil {
		panic(unsupported("next on unknown iterator"))
	}
	ok := fx.freshConst("next.ok", "Bool")
	k := fx.freshConst("next.k", it.ks)
	inH := st.heapGet(mapInName(it.ks, it.vs), "(Array Int (Array "+it.ks+" Bool))")
	vH := st.heapGet(mapValName(it.ks, it.vs), "(Array Int (Array "+it.ks+" "+it.vs+"))")
	m := it.mapTerm
	in := "(and (not (= " + m + " 0)) (select (select " + inH + " " + m + ") " + k + "))"
	st.assume("(=> " + ok + " (and " + in + " (not (select " + it.visited + " " + k + "))))")
	st.assume("(=> (not " + ok + ") (forall ((q.k " + it.ks + ")) (=> (and (not (= " + m + " 0)) (select (select " + inH + " " + m + ") q.k)) (select " + it.visited + " q.k))))")
	v := "(select (select " + vH + " " + m + ") " + k + ")"
	nv := fx.freshConst("visited", "(Array "+it.ks+" Bool)")
	st.assume("(= " + nv + " (ite " + ok + " (store " + it.visited + " " + k + " true) " + it.visited + "))")
	nit := *it
	nit.visited = nv
	st.iters[x.Iter] = &nit
	// keep loop alias up to date
	for name, li := range st.loopIters {
		if li == it {
			st.loopIters[name] = &nit
		}
	}
	st.tups[x] = []Term{ok, k, v}
	return true
}

func (fx *FnExec) doRecv(st *State, fr *frame, x *ssa.UnOp) {
	c := st.val(x.X)
	et := x.X.Type().Underlying().(*types.Chan).Elem()
	es := fx.sortOf(et)
	v := fx.freshConst("recv", es)
	st.assumeWF(v, et)
	ok := fx.freshConst("recv.ok", "Bool")
	closed := st.ghostLoad("chanclosed", "Bool", c)
	st.assume("(=> (not " + ok + ") " + closed + ")")
	st.assume("(=> (not " + ok + ") (= " + v + " " + fx.zeroOfSort(es) + "))")
	// single-message slot channels: the value received is the value sent
	valH := "ghost.chanval." + sanitize(es)
	sent := "(select " + st.heapGet(valH, arrOf(es)) + " " + c + ")"
	sends := st.ghostLoad("chansends", "Int", c)
	st.assume("(=> (and " + ok + " (= (select " + st.heapGet("ghost.chancap", arrOf("Int")) + " " + c + ") 1) (<= " + sends + " 1)) (and (= " + v + " " + sent + ") (= " + sends + " 1)))")
	// receiving empties a one-slot buffer
	ln := st.ghostLoad("chanlen", "Int", c)
	st.ghostStore("chanlen", "Int", c, "(ite (and "+ok+" (> "+ln+" 0)) (- "+ln+" 1) "+ln+")")
	fx.chanMsgTransfer(st, fr, et, v, ok, false, x, c, x.X.Type())
	// a receive is visible to contracts like a call: callres("recv#N", 0, T) is
	// the value, callres("recv#N", 1, "bool") whether one was received
	fx.recordCall(st, x, []Term{v, ok})
	if x.CommaOk {
		st.tups[x] = []Term{v, ok}
	} else {
		st.vals[x] = v
	}
}

// chanMsgTransfer: ghost resources that travel with channel messages.
func (fx *FnExec) chanMsgTransfer(st *State, fr *frame, et types.Type, v Term, cond Term, isSend bool, site ssa.Instruction, ch Term, cht types.Type) {
	tn := typeName(et)
	for _, cm := range fx.P.Specs.ChanMsgs {
		if cm.TypeName != tn {
			continue
		}
		env := &evalEnv{fx: fx, st: st, vars: map[string]cval{"msg": {t: v, typ: et, sort: fx.sortOf(et)}, "ch": {t: ch, typ: cht, sort: "Int"}}, pkg: fx.P.TypesPkgs[cm.Pkg]}
		if cm.Inv != nil {
			iv := env.eval(cm.Inv)
			if isSend {
				fx.emit(st, fr, "chan-inv", fx.ord(fr.fn, site, "send")+"/"+tn[strings.LastIndex(tn, ".")+1:], iv.t, nil, cm.Inv.String())
			} else {
				st.assume("(=> " + cond + " " + iv.t + ")")
			}
			continue
		}
		amt := env.eval(cm.Amount)
		cur := env.eval(cm.Ghost)
		if isSend {
			fx.emit(st, fr, "token", fx.ord(fr.fn, site, "send")+"/have:"+cm.Ghost.String(), "(>= "+cur.t+" "+amt.t+")", nil, "")
			fx.assignGhost(st, env, cm.Ghost, "(- "+cur.t+" "+amt.t+")")
		} else {
			fx.assignGhost(st, env, cm.Ghost, "(ite "+cond+" (+ "+cur.t+" "+amt.t+") "+cur.t+")")
		}
	}
}

func (fx *FnExec) doSend(st *State, fr *frame, x *ssa.Send) {
	c := st.val(x.Chan)
	v := st.val(x.X)
	name := fx.ord(fr.fn, x, "send")
	// site assertions: arg0 is the value sent, arg1 the channel
	fx.siteAsserts(st, fr, nil, &callArgs{terms: []Term{v, c}, vals: []ssa.Value{x.X, x.Chan}, lvs: []*LValue{nil, nil}}, x)
	fx.emit(st, fr, "chan-open", name, "(not "+st.ghostLoad("chanclosed", "Bool", c)+")", nil, "")
	fx.chanSendEffect(st, c, v, fx.sortOf(x.X.Type()), "true")
	fx.chanMsgTransfer(st, fr, x.X.Type(), v, "true", true, x, c, x.Chan.Type())
}

func (fx *FnExec) chanSendEffect(st *State, c, v Term, es string, cond Term) {
	valH := "ghost.chanval." + sanitize(es)
	h := st.heapGet(valH, arrOf(es))
	sends := st.ghostLoad("chansends", "Int", c)
	ln := st.ghostLoad("chanlen", "Int", c)
	if cond == "true" {
		st.heapSet(valH, arrOf(es), "(store "+h+" "+c+" "+v+")")
		st.ghostStore("chansends", "Int", c, "(+ "+sends+" 1)")
		st.ghostStore("chanlen", "Int", c, "(+ "+ln+" 1)")
	} else {
		st.heapSet(valH, arrOf(es), "(ite "+cond+" (store "+h+" "+c+" "+v+") "+h+")")
		st.ghostStore("chansends", "Int", c, "(ite "+cond+" (+ "+sends+" 1) "+sends+")")
		st.ghostStore("chanlen", "Int", c, "(ite "+cond+" (+ "+ln+" 1) "+ln+")")
	}
}

func (fx *FnExec) doSelect(st *State, fr *frame, x *ssa.Select) {
	n := len(x.States)
	idx := fx.freshConst("select.idx", "Int")
	lo := "0"
	if !x.Blocking {
		lo = "(- 1)"
	}
	st.assume(fmt.Sprintf("(and (<= %s %s) (< %s %d))", lo, idx, idx, n))
	tup := []Term{idx, "false"}
	recvOk := fx.freshConst("select.ok", "Bool")
	tup[1] = recvOk
	for i, s := range x.States {
		c := st.val(s.Chan)
		if s.Dir == types.SendOnly {
			v := st.val(s.Send)
			// a closed channel is always ready: selecting on it panics
			fx.emit(st, fr, "chan-open", fmt.Sprintf("%s/case%d", fx.ord(fr.fn, x, "select"), i), "(not "+st.ghostLoad("chanclosed", "Bool", c)+")", nil, "")
			fx.chanSendEffect(st, c, v, fx.sortOf(s.Send.Type()), fmt.Sprintf("(= %s %d)", idx, i))
		} else {
			et := s.Chan.Type().Underlying().(*types.Chan).Elem()
			v := fx.freshConst("select.recv", fx.sortOf(et))
			st.assumeWF(v, et)
			tup = append(tup, v)
		}
	}
	st.tups[x] = tup
}


// closureCaptures: `captures` clauses of a closure's contract are facts about
// the captured values, checked where the closure is created.
func (fx *FnExec) closureCaptures(st *State, fr *frame, x *ssa.MakeClosure, ci *closureInfo) {
	key := fnKey(ci.fn)
	cs := fx.P.Specs.Funcs[key]
	if len(cs) == 0 || len(cs[0].Captures) == 0 {
		return
	}
	fc := cs[0]
	tgt := callTarget{fn: ci.fn, fc: fc, key: key, closure: ci}
	env := fx.contractEnv(st, tgt, ci.fn.Signature, nil, &callArgs{})
	for i, c := range fc.Captures {
		v, err := env.safeEval(c.Expr)
		if err != nil {
			panic(fmt.Sprintf("%s:%d: %v", c.File, c.Line, err))
		}
		fx.emit(st, fr, "captures", ci.fn.Name()+"/"+clauseName(c, i), v.t, c.Props, c.Src)
	}
}
