package main

import (
	"fmt"
	"go/types"
	"os"
	"path/filepath"
	"strings"

	"golang.org/x/tools/go/packages"
	"golang.org/x/tools/go/ssa"
	"golang.org/x/tools/go/ssa/ssautil"
)

type Prog struct {
	Repo            string
	ModPath         string
	Pkgs            []*packages.Package
	SSA             *ssa.Program
	SSAPkgs         map[string]*ssa.Package // by path
	TypesPkgs       map[string]*types.Package
	Funcs           map[string]*ssa.Function // stripped key -> function
	Specs           *Specs
	structWhitelist map[string]bool
	pkgByLast       map[string][]*types.Package
}

func (p *Prog) inModule(path string) bool {
	return path == p.ModPath || strings.HasPrefix(path, p.ModPath+"/")
}

func loadProg(repo string, overlay map[string][]byte) (*Prog, error) {
	modPath := "github.com/creachadair/jrpc2"
	if b, err := os.ReadFile(filepath.Join(repo, "go.mod")); err == nil {
		for _, l := range strings.Split(string(b), "\n") {
			if strings.HasPrefix(l, "module ") {
				modPath = strings.TrimSpace(strings.TrimPrefix(l, "module "))
				break
			}
		}
	}
	cfg := &packages.Config{
		Mode:       packages.LoadAllSyntax,
		Dir:        repo,
		BuildFlags: []string{"-tags=verif"},
		Env:        append(os.Environ(), "GOFLAGS=-mod=mod", "GOPROXY=off", "GOSUMDB=off", "GOTOOLCHAIN=local"),
		Overlay:    overlay,
	}
	pkgs, err := packages.Load(cfg, "./...")
	if err != nil {
		return nil, err
	}
	var errs []string
	packages.Visit(pkgs, nil, func(p *packages.Package) {
		for _, e := range p.Errors {
			errs = append(errs, e.Error())
		}
	})
	if len(errs) > 0 {
		return nil, fmt.Errorf("package errors: %s", strings.Join(errs, "; "))
	}
	prog, _ := ssautil.AllPackages(pkgs, ssa.GlobalDebug|ssa.InstantiateGenerics)
	prog.Build()
	P := &Prog{Repo: repo, ModPath: modPath, Pkgs: pkgs, SSA: prog,
		SSAPkgs: map[string]*ssa.Package{}, TypesPkgs: map[string]*types.Package{},
		Funcs: map[string]*ssa.Function{}, structWhitelist: map[string]bool{}, pkgByLast: map[string][]*types.Package{}}
	for _, sp := range prog.AllPackages() {
		P.SSAPkgs[sp.Pkg.Path()] = sp
		P.TypesPkgs[sp.Pkg.Path()] = sp.Pkg
		last := sp.Pkg.Path()
		if i := strings.LastIndex(last, "/"); i >= 0 {
			last = last[i+1:]
		}
		P.pkgByLast[last] = append(P.pkgByLast[last], sp.Pkg)
	}
	for fn := range ssautil.AllFunctions(prog) {
		if fn.Synthetic != "" && !strings.Contains(fn.Synthetic, "instance of") && fn.Name() != "init" {
			continue
		}
		k := stripTypeArgs(fn.String())
		if old, ok := P.Funcs[k]; ok && len(old.Blocks) > 0 {
			continue
		}
		P.Funcs[k] = fn
	}
	return P, nil
}

// fnKey is the lookup key for a function's contract.
func fnKey(fn *ssa.Function) string { return stripTypeArgs(fn.String()) }

func (p *Prog) lookupPkg(name string) *types.Package {
	if tp, ok := p.TypesPkgs[name]; ok {
		return tp
	}
	c := p.pkgByLast[name]
	if len(c) >= 1 {
		// prefer module packages, then stdlib (no dot in first element)
		for _, x := range c {
			if p.inModule(x.Path()) {
				return x
			}
		}
		for _, x := range c {
			if !strings.Contains(strings.SplitN(x.Path(), "/", 2)[0], ".") && !strings.Contains(x.Path(), "internal") && !strings.Contains(x.Path(), "vendor") {
				return x
			}
		}
		return c[0]
	}
	return nil
}
