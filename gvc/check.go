package main

// gvc check -p Cxx [-tier quick|thorough]: decide one property.

import (
	"encoding/json"
	"flag"
	"fmt"
	"os"
	"path/filepath"
	"sort"
	"strconv"
	"strings"
	"time"
)

type PropDef struct {
	Title       string   `json:"title"`
	Functions   []string `json:"functions"` // function keys under contract (fully qualified)
	Lemmas      []string `json:"lemmas"`
	Census      []string `json:"census"`
	Trusted     []string `json:"trusted"`     // trusted base, free text
	Assumptions []string `json:"assumptions"` // property-specific assumptions
	Undecided   []string `json:"undecided"`   // clauses this family leaves undecided
	Bounded     []string `json:"bounded"`
	Composition string   `json:"composition"`
}

type KnownFinding struct {
	Property   string `json:"property"`
	Obligation string `json:"obligation"`
	What       string `json:"what"`
	Excluded   string `json:"excluded"` // contract expression: the known failing region
	Status     string `json:"status"`   // "known" | "fixed"
	Commit     string `json:"commit,omitempty"`
}

type KnownFindings struct {
	Findings []KnownFinding `json:"findings"`
	Fixed    []string       `json:"fixed"`
}

func loadProps() (map[string]*PropDef, error) {
	b, err := os.ReadFile(filepath.Join(verifRoot(), "spec", "props.json"))
	if err != nil {
		return nil, err
	}
	m := map[string]*PropDef{}
	if err := json.Unmarshal(b, &m); err != nil {
		return nil, err
	}
	return m, nil
}

func loadKnown() *KnownFindings {
	kf := &KnownFindings{}
	b, err := os.ReadFile(filepath.Join(verifRoot(), "known_findings.json"))
	if err == nil {
		json.Unmarshal(b, kf)
	}
	return kf
}

func loadLock() map[string][]string {
	m := map[string][]string{}
	b, err := os.ReadFile(filepath.Join(verifRoot(), "spec", "obligations.lock"))
	if err == nil {
		json.Unmarshal(b, &m)
	}
	return m
}

type checkResult struct {
	prop        string
	reports     []*FnReport
	agg         map[string]*aggObl
	censusRes   []*censusResult
	undecided   []string
	violations  []string // obligation names
	known       []string
	wall        float64
	queries     int
	fnsVerified []string
	fnsTrusted  []string
	errors      []string
}

// unbound records a part of a contract that can no longer be generated from the
// current source (function gone, call site gone, identifier gone): obligations
// that were discharged on the unchanged tree are not discharged now. It is
// reported like a failed obligation, without a counterexample.
func (res *checkResult) unbound(name, detail string) {
	res.agg[name] = &aggObl{status: "unbound", n: 1, kind: "binding", solver: "none",
		witness: &Obligation{Name: name, Goal: detail, Path: detail, Src: "contract does not bind to the current source"}}
}

func runProperty(P *Prog, id string, pd *PropDef, opts solveOpts) *checkResult {
	res := &checkResult{prop: id, agg: map[string]*aggObl{}}
	t0 := time.Now()
	type job struct {
		rep *FnReport
	}
	var reps []*FnReport
	for _, key := range pd.Functions {
		fn := P.Funcs[stripTypeArgs(key)]
		if fn == nil {
			res.unbound(shortKey(key)+"#binding:function", "function "+key+" not found: its contract does not bind")
			continue
		}
		var fc *FuncContract
		if cs := P.Specs.Funcs[stripTypeArgs(key)]; len(cs) > 0 {
			fc = cs[0]
		}
		rep := verifyFunc(P, fn, fc)
		reps = append(reps, rep)
	}
	for _, ln := range pd.Lemmas {
		found := false
		for _, lm := range P.Specs.Lemmas {
			if lm.Name == ln {
				reps = append(reps, verifyLemma(P, lm))
				found = true
			}
		}
		if !found {
			res.unbound("lemma."+ln+"#binding:lemma", "lemma "+ln+" not found")
		}
	}
	// solve all (functions in parallel)
	done := make(chan struct{}, len(reps))
	for _, r := range reps {
		r := r
		go func() {
			solveReport(r, opts)
			done <- struct{}{}
		}()
	}
	for range reps {
		<-done
	}
	for _, r := range reps {
		res.reports = append(res.reports, r)
		if r.Trusted {
			res.fnsTrusted = append(res.fnsTrusted, r.Short)
			continue
		}
		if r.Error != "" {
			if strings.Contains(r.Error, "unsupported") {
				res.errors = append(res.errors, r.Short+": "+r.Error)
			} else {
				res.unbound(r.Short+"#binding:contract", r.Error)
			}
			continue
		}
		if r.Truncated {
			res.errors = append(res.errors, r.Short+": path cap reached; function not decided")
			continue
		}
		res.fnsVerified = append(res.fnsVerified, r.Short)
		res.queries += len(r.Obls)
		for name, a := range aggregate(r.Obls) {
			res.agg[name] = a
		}
		// contract parts that no longer bind
		if r.fx != nil && r.fx.fc != nil {
			for site := range r.fx.fc.Asserts {
				if !r.fx.boundAsserts[r.Key+"@"+site] {
					res.unbound(r.Short+"#binding:assert@"+site, fmt.Sprintf("%s: call-site assertion at %s does not bind", r.Short, site))
				}
			}
			for site := range r.fx.fc.GhostSets {
				if !r.fx.boundAsserts[r.Key+"@gs:"+site] {
					res.unbound(r.Short+"#binding:ghostset@"+site, fmt.Sprintf("%s: ghost assignment at %s does not bind", r.Short, site))
				}
			}
			for n := range r.fx.fc.Loops {
				if !r.fx.hasLoop(n) {
					res.unbound(fmt.Sprintf("%s#binding:loop%d", r.Short, n), fmt.Sprintf("%s: loop %d does not bind", r.Short, n))
				}
			}
		}
	}
	for _, cn := range pd.Census {
		found := false
		for _, c := range P.Specs.Census {
			if c.Name == cn {
				found = true
				cr := runCensus(P, c)
				res.censusRes = append(res.censusRes, cr)
				st := "unsat"
				if !cr.ok {
					st = "sat"
				}
				res.agg["census#"+c.Name] = &aggObl{status: st, n: 1, kind: "census", solver: "structural", witness: &Obligation{Name: "census#" + c.Name, Goal: cr.detail, Path: cr.detail}}
			}
		}
		if !found {
			res.unbound("census#"+cn+"#binding", "census rule "+cn+" not found")
		}
	}
	res.wall = time.Since(t0).Seconds()
	return res
}

func (fx *FnExec) hasLoop(n int) bool {
	if fx.fn == nil {
		return false
	}
	li := fx.loops(fx.fn)
	for _, h := range li.headers {
		if h.ord == n {
			return true
		}
	}
	return false
}

func cmdCheck(args []string) int {
	fs := flag.NewFlagSet("check", flag.ExitOnError)
	repo := fs.String("repo", "/repo", "repository")
	prop := fs.String("p", "", "property id")
	tier := fs.String("tier", "", "quick|thorough")
	mutant := fs.String("mutant", "", "apply this patch through the overlay (self-test)")
	noEvidence := fs.Bool("no-evidence", false, "do not write evidence (self-test runs)")
	fs.Parse(args)
	if *tier == "" {
		*tier = os.Getenv("VERIF_TIER")
	}
	if *tier == "" {
		*tier = "quick"
	}
	seed := 0
	if s := os.Getenv("VERIF_SEED"); s != "" {
		seed, _ = strconv.Atoi(s)
	}
	props, err := loadProps()
	if err != nil {
		fmt.Fprintln(os.Stderr, "props:", err)
		return 2
	}
	pd := props[*prop]
	if pd == nil {
		fmt.Fprintln(os.Stderr, "unknown property", *prop)
		return 2
	}
	t0 := time.Now()
	var ov map[string][]byte
	if *mutant != "" {
		ov, err = overlayFromPatch(*repo, *mutant)
		if err != nil {
			fmt.Fprintln(os.Stderr, err)
			return 2
		}
	}
	P, err := loadAll(*repo, ov)
	if err != nil {
		// the tree does not build: nothing can be decided
		fmt.Fprintln(os.Stderr, "load:", err)
		fmt.Printf("UNDECIDED: /repo does not load (%v)\n", truncate(err.Error(), 300))
		return 2
	}
	opts := solveOpts{timeout: 30 * time.Second, models: true}
	if *tier == "thorough" {
		opts.timeout = 120 * time.Second
	}
	res := runProperty(P, *prop, pd, opts)
	known := loadKnown()
	lock := loadLock()

	// verdicts
	var names []string
	for n := range res.agg {
		names = append(names, n)
	}
	sort.Strings(names)
	exit := 0
	discharged := 0
	type vio struct {
		name string
		a    *aggObl
	}
	var vios []vio
	for _, n := range names {
		a := res.agg[n]
		if a.status == "unsat" {
			discharged++
			continue
		}
		// known finding?
		isKnown := false
		for _, k := range known.Findings {
			if k.Property == *prop && k.Obligation == n && k.Status != "fixed" {
				fmt.Printf("KNOWN-FINDING: property=%s %s (%s)\n", *prop, k.What, n)
				res.known = append(res.known, n)
				isKnown = true
			}
		}
		if !isKnown {
			vios = append(vios, vio{n, a})
		}
	}
	for _, e := range res.errors {
		fmt.Printf("UNDECIDED: %s\n", e)
		res.undecided = append(res.undecided, e)
	}
	// locked obligations that disappeared
	have := map[string]bool{}
	for _, n := range names {
		have[n] = true
	}
	for _, n := range lock[*prop] {
		if !have[n] {
			res.undecided = append(res.undecided, "locked obligation "+n+" was not generated")
		}
	}
	for _, u := range res.undecided {
		fmt.Printf("UNDECIDED: %s\n", u)
	}
	replayDir := filepath.Join(verifRoot(), "replays", *prop)
	for _, v := range vios {
		os.MkdirAll(replayDir, 0o755)
		path := filepath.Join(replayDir, sanitize(v.name)+".json")
		rf := map[string]any{"property": *prop, "obligation": v.name, "status": v.a.status, "kind": v.a.kind}
		suffix := " no-failing-input-found"
		if v.a.witness != nil {
			rf["path"] = v.a.witness.Path
			rf["goal"] = v.a.witness.Goal
			rf["clause"] = v.a.witness.Src
			rf["solver_output"] = v.a.witness.Result.Raw
			rf["model"] = v.a.witness.Result.Model
			rf["model_is_relaxed_candidate"] = v.a.witness.Result.Relaxed
			if rp := tryReplay(P, *repo, *prop, v.name, v.a.witness, rf); rp {
				suffix = ""
			}
		}
		b, _ := json.MarshalIndent(rf, "", " ")
		os.WriteFile(path, b, 0o644)
		fmt.Printf("VIOLATION property=%s replay=%s%s\n", *prop, path, suffix)
		exit = 1
	}
	wall := time.Since(t0).Seconds()
	fmt.Printf("property %s: %d obligations (%d queries), %d discharged, %d violations, %d known findings, %d undecided; %d functions under contract; %.1fs\n",
		*prop, len(names), res.queries, discharged, len(vios), len(res.known), len(res.undecided), len(res.fnsVerified), wall)
	if !*noEvidence && *mutant == "" {
		writeEvidence(P, *prop, pd, res, *tier, seed, discharged, len(names), len(vios), wall)
	}
	return exit
}

func writeEvidence(P *Prog, prop string, pd *PropDef, res *checkResult, tier string, seed, discharged, total, nvio int, wall float64) {
	level := "proof"
	if len(res.undecided) > 0 || discharged != total || total == 0 {
		level = "other"
	}
	byKind := map[string]int{}
	for _, a := range res.agg {
		byKind[a.kind]++
	}
	statMu.Lock()
	byBackend := map[string]int{}
	for k, v := range statBySolver {
		byBackend[k] = v
	}
	solverTime := statTime
	statMu.Unlock()
	type slow struct {
		Name string  `json:"name"`
		Time float64 `json:"time_s"`
	}
	var slows []slow
	for n, a := range res.agg {
		slows = append(slows, slow{n, a.time})
	}
	sort.Slice(slows, func(i, j int) bool { return slows[i].Time > slows[j].Time })
	if len(slows) > 5 {
		slows = slows[:5]
	}
	var slowQ []slow
	for n, a := range res.agg {
		slowQ = append(slowQ, slow{n, a.maxTime})
	}
	sort.Slice(slowQ, func(i, j int) bool { return slowQ[i].Time > slowQ[j].Time })
	if len(slowQ) > 5 {
		slowQ = slowQ[:5]
	}
	inl, hav, asm := map[string]bool{}, map[string]bool{}, map[string]bool{}
	paths := 0
	var notes []string
	for _, r := range res.reports {
		for _, x := range r.Inlined {
			inl[x] = true
		}
		for _, x := range r.Havocked {
			hav[x] = true
		}
		for _, x := range r.Assumed {
			asm[x] = true
		}
		paths += r.Paths
		notes = append(notes, r.Notes...)
		if r.Truncated {
			notes = append(notes, r.Short+": path cap reached")
		}
	}
	var samples []any
	cnt := 0
	var names []string
	for n := range res.agg {
		names = append(names, n)
	}
	sort.Strings(names)
	for _, n := range names {
		a := res.agg[n]
		if cnt >= 6 {
			break
		}
		if a.kind == "ensures" || a.kind == "lemma" || a.kind == "monitor" || a.kind == "assert" || cnt < 2 {
			s := map[string]any{"obligation": n, "kind": a.kind, "result": a.status, "instances": a.n, "solver": a.solver, "time_s": a.time}
			for _, r := range res.reports {
				for _, o := range r.Obls {
					if o.Name == n {
						s["clause"] = o.Src
						s["goal_smt"] = truncate(o.Goal, 300)
						s["path"] = o.Path
						s["assumptions_on_path"] = len(o.Assumes)
						goto found
					}
				}
			}
		found:
			samples = append(samples, s)
			cnt++
		}
	}
	trusted := []string{
		"gvc itself: go/ssa -> SMT translation (DESIGN 3.3-3.5), loop cutting, contract application",
		"SMT solvers z3 4.8.12, z3 5.1.0, cvc5 1.0",
		"go/ssa (x/tools v0.29.0) faithfully represents the compiled code",
		"lock-invariant / ownership meta-theorem (DESIGN 5.5); Go memory model edges Unlock->Lock, Done->Wait, send->receive",
	}
	trusted = append(trusted, pd.Trusted...)
	for _, k := range sortedBoolKeys(asm) {
		trusted = append(trusted, "assumed contract: "+k)
	}
	for _, f := range res.fnsTrusted {
		trusted = append(trusted, "trusted function (body not verified): "+f)
	}
	assumptions := []string{
		"blocking operations are treated as returning (partial correctness); no liveness conclusion",
		"data races on fields not declared guarded/immutable are not excluded",
		"append is exact (in place if capacity suffices) for slices not built by the function itself; for locally built slices it is modelled as reallocating (differs only under a local alias of the same array); memory exhaustion is not modelled (make sizes are bounded by 2^48 bytes)",
		"package-level variables are immutable after init (census-checked for /repo)",
		"user callbacks do not touch library-private state except through exported, locking methods",
		"integers are mathematical Int with explicit two's-complement wrap on every arithmetic result",
	}
	assumptions = append(assumptions, pd.Assumptions...)
	for _, k := range sortedBoolKeys(hav) {
		assumptions = append(assumptions, "un-contracted external call treated as havoc: "+k)
	}
	cov := map[string]any{
		"obligations":              total,
		"discharged":               discharged,
		"checker_cmd":              fmt.Sprintf("./bin/gvc check -p %s -tier %s", prop, tier),
		"trusted_base":             trusted,
		"functions_under_contract": res.fnsVerified,
		"queries":                  res.queries,
		"paths":                    paths,
		"obligations_by_kind":      byKind,
		"by_backend":               byBackend,
		"solver_time_s":            solverTime,
		"slowest":                  slows,
		"slowest_single_query":     slowQ,
		"inlined_functions":        sortedBoolKeys(inl),
		"havoc_calls":              sortedBoolKeys(hav),
		"assumed_contracts_used":   sortedBoolKeys(asm),
		"undecided_clauses":        pd.Undecided,
		"undecided_this_run":       res.undecided,
		"known_findings_printed":   res.known,
		"bounded_checks":           pd.Bounded,
		"composition_argument":     pd.Composition,
		"samples":                  samples,
		"notes":                    notes,
		"explanation":              "contract-based deductive verification: obligations generated from /repo's SSA under the contracts in verif_contracts.go; see DESIGN.md",
	}
	var censusOut []any
	for _, c := range res.censusRes {
		censusOut = append(censusOut, map[string]any{"rule": c.name, "ok": c.ok, "detail": c.detail, "sites": c.sites})
	}
	cov["census"] = censusOut
	ev := map[string]any{
		"property_id": prop,
		"tier":        tier,
		"seed":        seed,
		"level":       level,
		"coverage":    cov,
		"assumptions": assumptions,
		"wall_s":      wall,
		"violations":  nvio,
	}
	b, _ := json.MarshalIndent(ev, "", " ")
	dir := filepath.Join(verifRoot(), "evidence")
	os.MkdirAll(dir, 0o755)
	os.WriteFile(filepath.Join(dir, prop+".json"), b, 0o644)
}

// tryReplay: placeholder until replay.go provides concrete replays.
func tryReplay(P *Prog, repo, prop, name string, o *Obligation, rf map[string]any) bool {
	return replayObligation(P, repo, prop, name, o, rf)
}

var _ = strings.Contains
