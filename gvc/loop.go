package main

// Loop cutting: natural loops, invariants (establish / assume / preserve),
// havoc of loop-modified state with a "fresh objects only" frame.

import (
	"fmt"
	"os"
	"go/ast"
	"go/token"
	"go/types"
	"sort"
	"strings"

	"golang.org/x/tools/go/ssa"
)

type loopHdr struct {
	ord    int
	header *ssa.BasicBlock
	body   map[*ssa.BasicBlock]bool
}

type loopInfo struct {
	headers map[*ssa.BasicBlock]*loopHdr
}

func (li *loopInfo) isBackEdge(from, to *ssa.BasicBlock) bool {
	h, ok := li.headers[to]
	if !ok {
		return false
	}
	return h.body[from] && to.Dominates(from)
}

func (fx *FnExec) loops(fn *ssa.Function) *loopInfo {
	if li, ok := fx.loopsOf[fn]; ok {
		return li
	}
	li := &loopInfo{headers: map[*ssa.BasicBlock]*loopHdr{}}
	for _, b := range fn.Blocks {
		for _, s := range b.Succs {
			if s.Dominates(b) {
				h := li.headers[s]
				if h == nil {
					h = &loopHdr{header: s, body: map[*ssa.BasicBlock]bool{s: true}}
					li.headers[s] = h
				}
				// natural loop of back edge b->s
				var stack []*ssa.BasicBlock
				if !h.body[b] {
					h.body[b] = true
					stack = append(stack, b)
				}
				for len(stack) > 0 {
					n := stack[len(stack)-1]
					stack = stack[:len(stack)-1]
					for _, p := range n.Preds {
						if !h.body[p] {
							h.body[p] = true
							stack = append(stack, p)
						}
					}
				}
			}
		}
	}
	var hs []*loopHdr
	for _, h := range li.headers {
		hs = append(hs, h)
	}
	sort.Slice(hs, func(i, j int) bool { return hs[i].header.Index < hs[j].header.Index })
	// order loops by source position of the header where available
	sort.SliceStable(hs, func(i, j int) bool {
		pi, pj := blockPos(hs[i].header), blockPos(hs[j].header)
		if pi != token.NoPos && pj != token.NoPos {
			return pi < pj
		}
		return false
	})
	for i, h := range hs {
		h.ord = i + 1
	}
	fx.loopsOf[fn] = li
	return li
}

func blockPos(b *ssa.BasicBlock) token.Pos {
	for _, i := range b.Instrs {
		if p := i.Pos(); p != token.NoPos {
			return p
		}
	}
	return token.NoPos
}

// realRefHeap: a heap variable of real (non-ghost) state indexed by object reference.
func realRefHeap(name, srt string) bool {
	return !strings.HasPrefix(name, "ghost.") && !strings.HasPrefix(name, "gv.") && strings.HasPrefix(srt, "(Array Int ")
}

type modInfo struct {
	sinceEntry bool // fresh writes may reach objects allocated by this function before the loop
	pointee   bool // changed only through pointee(p) writes inside the loop
	sort      string
	freshOnly bool
	whole     bool   // some modification is at an index not known at loop entry
	hasFresh  bool   // objects allocated inside the loop are written
	points    []Term // loop-invariant indices at which the variable is modified
}

// loopEnv builds the evaluation environment for a loop's invariants.
func (fx *FnExec) loopEnv(st *State, fr *frame, h *loopHdr) *evalEnv {
	env := fx.frameEnv(st, fr)
	for _, ins := range h.header.Instrs {
		phi, ok := ins.(*ssa.Phi)
		if !ok {
			break
		}
		if phi.Comment != "" {
			if t, ok := st.vals[phi]; ok {
				env.vars[phi.Comment] = cval{t: t, typ: phi.Type(), sort: fx.sortOf(phi.Type())}
			}
		}
	}
	fx.indexAlias(env, st, h)
	env.iters = st.loopIters
	return env
}

// indexAlias: a loop written `for i := 0; i < n; i++` has no rangeindex of its
// own; a contract written for the range form keeps binding with rangeindex
// standing for i - 1 (the index of the last completed iteration at the loop
// head, of the current element minus one inside the body - as in range loops).
func (fx *FnExec) indexAlias(env *evalEnv, st *State, h *loopHdr) {
	var cand *ssa.Phi
	n := 0
	for _, ins := range h.header.Instrs {
		phi, ok := ins.(*ssa.Phi)
		if !ok {
			break
		}
		if phi.Comment == "rangeindex" {
			return
		}
		if _, live := st.vals[phi]; !live || len(phi.Edges) != 2 || fx.sortOf(phi.Type()) != "Int" {
			continue
		}
		zero, step := false, false
		for _, e := range phi.Edges {
			if c, ok := e.(*ssa.Const); ok && c.Value != nil && c.Int64() == 0 {
				zero = true
			}
			if bo, ok := e.(*ssa.BinOp); ok && bo.Op == token.ADD && bo.X == ssa.Value(phi) {
				if c, ok := bo.Y.(*ssa.Const); ok && c.Value != nil && c.Int64() == 1 {
					step = true
				}
			}
		}
		if zero && step {
			cand = phi
			n++
		}
	}
	if n == 1 {
		env.vars["rangeindex"] = cval{t: "(- " + st.vals[cand] + " 1)", typ: cand.Type(), sort: "Int"}
	}
}

// frameEnv: names visible to contract expressions inside a frame: parameters,
// free variables (auto-dereferenced captured cells), named results are added by
// the caller when needed.
func (fx *FnExec) frameEnv(st *State, fr *frame) *evalEnv {
	env := &evalEnv{fx: fx, st: st, old: st.entryHeap, vars: map[string]cval{}, iters: st.loopIters}
	if fr.fc != nil && len(fr.fc.GhostVars) > 0 {
		env.gvars = map[string]string{}
		for _, g := range fr.fc.GhostVars {
			env.gvars[g.Name] = g.Type
		}
	}
	if fr.fn.Pkg != nil {
		env.pkg = fr.fn.Pkg.Pkg
	} else if fr.fn.Parent() != nil && fr.fn.Parent().Pkg != nil {
		env.pkg = fr.fn.Parent().Pkg.Pkg
	}
	if fr.fc != nil && fr.fc.Pkg != "" {
		if p := fx.P.TypesPkgs[fr.fc.Pkg]; p != nil {
			env.pkg = p
		}
	}
	for _, p := range fr.fn.Params {
		if t, ok := st.vals[p]; ok {
			env.vars[p.Name()] = cval{t: t, typ: p.Type(), sort: fx.sortOf(p.Type()), lv: st.lvs[p]}
		}
	}
	// address-taken locals by their source name
	for _, b := range fr.fn.Blocks {
		for _, ins := range b.Instrs {
			al, ok := ins.(*ssa.Alloc)
			if !ok || al.Comment == "" || al.Comment == "complit" || al.Comment == "varargs" {
				continue
			}
			t, ok := st.vals[al]
			if !ok {
				continue
			}
			if _, dup := env.vars[al.Comment]; dup {
				continue
			}
			et := al.Type().Underlying().(*types.Pointer).Elem()
			if lv := st.lvs[al]; lv != nil {
				env.vars[al.Comment] = cval{t: st.load(lv), typ: et, sort: lv.elemSort}
			} else {
				env.vars[al.Comment] = cval{t: t, typ: al.Type(), sort: "Int"}
			}
		}
	}
	// locals with a single SSA definition, by their source name (DebugRef)
	{
		cands := map[string]map[ssa.Value]bool{}
		for _, b := range fr.fn.Blocks {
			for _, ins := range b.Instrs {
				dr, ok := ins.(*ssa.DebugRef)
				if !ok || dr.IsAddr {
					continue
				}
				id, ok := dr.Expr.(*ast.Ident)
				if !ok {
					continue
				}
				if cands[id.Name] == nil {
					cands[id.Name] = map[ssa.Value]bool{}
				}
				cands[id.Name][dr.X] = true
			}
		}
		for name, vs := range cands {
			if _, dup := env.vars[name]; dup {
				continue
			}
			// the definitions of this name that were executed on this path
			var live []ssa.Value
			for v := range vs {
				if _, isConst := v.(*ssa.Const); isConst {
					continue
				}
				if _, ok := st.vals[v]; ok {
					live = append(live, v)
				}
			}
			if len(live) != 1 {
				// several definitions ran: the one the name denoted most recently
				if v, ok := st.names[fmt.Sprintf("%p|%s", fr.fn, name)]; ok {
					if t, ok := st.vals[v]; ok {
						env.vars[name] = cval{t: t, typ: v.Type(), sort: fx.sortOf(v.Type()), lv: st.lvs[v]}
					}
				}
				continue
			}
			v := live[0]
			env.vars[name] = cval{t: st.vals[v], typ: v.Type(), sort: fx.sortOf(v.Type()), lv: st.lvs[v]}
		}
	}
	// names recorded on the path (phis keep their source name, including the
	// synthetic rangeindex) that nothing above has bound
	pref := fmt.Sprintf("%p|", fr.fn)
	for k, v := range st.names {
		if !strings.HasPrefix(k, pref) {
			continue
		}
		name := k[len(pref):]
		if _, dup := env.vars[name]; dup {
			continue
		}
		if t, ok := st.vals[v]; ok {
			env.vars[name] = cval{t: t, typ: v.Type(), sort: fx.sortOf(v.Type()), lv: st.lvs[v]}
		}
	}
	// A contract written for `for i, v := range s` keeps binding after the loop
	// is rewritten as `for i := 0; i < n; i++`: rangeindex is the index of the
	// last completed iteration, i.e. i - 1, when the function has exactly one
	// live counter of the shape phi(0, phi + 1).
	if _, have := env.vars["rangeindex"]; !have {
		var cand *ssa.Phi
		n := 0
		for _, b := range fr.fn.Blocks {
			for _, ins := range b.Instrs {
				phi, ok := ins.(*ssa.Phi)
				if !ok {
					break
				}
				if _, live := st.vals[phi]; !live || len(phi.Edges) != 2 || fx.sortOf(phi.Type()) != "Int" {
					continue
				}
				zero, step := false, false
				for _, e := range phi.Edges {
					if c, ok := e.(*ssa.Const); ok && c.Value != nil && c.Int64() == 0 {
						zero = true
					}
					if bo, ok := e.(*ssa.BinOp); ok && bo.Op == token.ADD && bo.X == ssa.Value(phi) {
						if c, ok := bo.Y.(*ssa.Const); ok && c.Value != nil && c.Int64() == 1 {
							step = true
						}
					}
				}
				if zero && step {
					cand = phi
					n++
				}
			}
		}
		if n == 1 {
			env.vars["rangeindex"] = cval{t: "(- " + st.vals[cand] + " 1)", typ: cand.Type(), sort: "Int"}
		}
	}
	for _, fv := range fr.fn.FreeVars {
		t, ok := st.vals[fv]
		if !ok {
			continue
		}
		// captured by reference: pointer to a cell => expose the content
		if pt, isPtr := fv.Type().Underlying().(*types.Pointer); isPtr {
			if lv := st.lvOf(fv); lv != nil {
				env.vars[fv.Name()] = cval{t: st.load(lv), typ: pt.Elem(), sort: lv.elemSort, lv: lv, cell: true}
				continue
			}
		}
		env.vars[fv.Name()] = cval{t: t, typ: fv.Type(), sort: fx.sortOf(fv.Type()), lv: st.lvs[fv]}
	}
	return env
}

func (fx *FnExec) loopSpec(fr *frame, h *loopHdr) *LoopSpec {
	if fr.fc == nil {
		return nil
	}
	return fr.fc.Loops[h.ord]
}

func clauseName(c Clause, i int) string {
	if c.Label != "" {
		return c.Label
	}
	return fmt.Sprint(i + 1)
}

func (fx *FnExec) loopEnter(st *State, fr *frame, h *loopHdr, b, pred *ssa.BasicBlock) bool {
	fx.evalPhis(st, b, pred)
	// iterator alias for visited(loopN, k)
	lname := fmt.Sprintf("loop%d", h.ord)
	for blk := range h.body {
		for _, ins := range blk.Instrs {
			if nx, ok := ins.(*ssa.Next); ok {
				if it := st.iters[nx.Iter]; it != nil {
					st.loopIters[lname] = it
				}
			}
		}
	}
	spec := fx.loopSpec(fr, h)
	// establish
	if spec != nil {
		env := fx.loopEnv(st, fr, h)
		for i, c := range spec.Invariants {
			v, err := env.safeEval(c.Expr)
			if err != nil {
				fx.bindingFailure(st, fr, fmt.Sprintf("loop%d/%s", h.ord, clauseName(c, i)), c, err)
				continue
			}
			fx.emit(st, fr, "inv-establish", fmt.Sprintf("loop%d/%s", h.ord, clauseName(c, i)), v.t, c.Props, c.Src)
		}
	}
	// havoc
	vacPre := len(st.pc)
	entryVals := map[*ssa.Phi]Term{}
	for _, ins := range b.Instrs {
		phi, ok := ins.(*ssa.Phi)
		if !ok {
			break
		}
		entryVals[phi] = st.vals[phi]
		nv := fx.freshConst("phi."+phi.Comment, fx.sortOf(phi.Type()))
		st.vals[phi] = nv
		delete(st.lvs, phi)
	}
	allocAtEntry := st.alloc
	mods := fx.loopMods(st, fr, h)
	_, pointeeLoop := mods["*pointee"]
	delete(mods, "*pointee")
	if pointeeLoop {
		// some call in the loop writes an object through a pointer of unknown
		// type (pointee(p)): every real heap variable may change at objects that
		// existed when the function was entered (obligation pointee-preexisting
		// at each such call); objects the function allocated itself keep their
		// contents unless the loop writes them in the ordinary way.
		st.pointeeLoop = true
		for _, name := range sortedTermKeys(st.heap) {
			if _, ok := mods[name]; ok || !realRefHeap(name, fx.heapSorts[name]) {
				continue
			}
			mods[name] = modInfo{sort: fx.heapSorts[name], pointee: true}
		}
	}
	for _, name := range sortedKeys(mods) {
		mi := mods[name]
		old := st.heapGet(name, mi.sort)
		if pointeeLoop && !mi.whole && realRefHeap(name, mi.sort) {
			es := arrayElemSort(mi.sort)
			cur := old
			seen := map[Term]bool{}
			for _, pt := range mi.points {
				if !seen[pt] {
					seen[pt] = true
					cur = "(store " + cur + " " + pt + " " + fx.freshConst(name+"@looppt", es) + ")"
				}
			}
			nv := fx.freshConst(name+"@loop", mi.sort)
			// objects allocated by this function before the loop are untouched
			st.assume(fmt.Sprintf("(forall ((q.r Int)) (! (=> (and (or (> q.r %s) (<= q.r (- (* (+ %s 1) 1024)))) (<= q.r %s)) (= (select %s q.r) (select %s q.r))) :pattern ((select %s q.r))))",
				fx.entryAlloc, fx.entryAlloc, allocAtEntry, nv, cur, nv))
			st.heapSet(name, mi.sort, nv)
			if fal := fx.topFrameAllowed(st); fal != nil {
				if pre, ok := fx.frameFormula(st, name, old, fal, st.entryHeap, fx.entryAlloc); ok {
					fx.emit(st, fr, "frame-establish", fmt.Sprintf("loop%d/%s", h.ord, name), pre, nil, "")
				}
				if post, ok := fx.frameFormula(st, name, nv, fal, st.entryHeap, fx.entryAlloc); ok {
					st.assume(post)
					st.loopFrames = append(append([]string(nil), st.loopFrames...), fmt.Sprintf("%d|%s", h.ord, name))
				}
			}
			continue
		}
		if !mi.whole && strings.HasPrefix(mi.sort, "(Array ") {
			// modified only at indices fixed before the loop (and at fresh objects)
			es := arrayElemSort(mi.sort)
			cur := old
			if mi.freshOnly == false || true {
				// fresh objects allocated in the loop may also be written: they are
				// beyond allocAtEntry, so give the whole array a new version that
				// agrees with the point-updated one on pre-existing indices.
			}
			seen := map[Term]bool{}
			for _, pt := range mi.points {
				if seen[pt] {
					continue
				}
				seen[pt] = true
				cur = "(store " + cur + " " + pt + " " + fx.freshConst(name+"@looppt", es) + ")"
			}
			if mi.hasFresh && arrayIndexSort(mi.sort) == "Int" {
				nv := fx.freshConst(name+"@loop", mi.sort)
				bound := allocAtEntry
				if mi.sinceEntry {
					bound = fx.entryAlloc
				}
				st.assume(fmt.Sprintf("(forall ((q.r Int)) (! (=> (<= q.r %s) (= (select %s q.r) (select %s q.r))) :pattern ((select %s q.r))))", bound, nv, cur, nv))
				cur = nv
			} else if mi.hasFresh {
				cur = fx.freshConst(name+"@loop", mi.sort)
			}
			st.heapSet(name, mi.sort, cur)
			continue
		}
		nv := fx.freshConst(name+"@loop", mi.sort)
		st.heapSet(name, mi.sort, nv)
		if mi.freshOnly && arrayIndexSort(mi.sort) == "Int" {
			bound := allocAtEntry
			if mi.sinceEntry {
				bound = fx.entryAlloc
			}
			st.assume(fmt.Sprintf("(forall ((q.r Int)) (! (=> (<= q.r %s) (= (select %s q.r) (select %s q.r))) :pattern ((select %s q.r))))", bound, nv, old, nv))
		} else if fal := fx.topFrameAllowed(st); fal != nil {
			// automatic loop invariant: the function's frame. What held before
			// the loop is assumed for the havocked value and re-checked on
			// every back edge (loopBack).
			if pre, ok := fx.frameFormula(st, name, old, fal, st.entryHeap, fx.entryAlloc); ok {
				fx.emit(st, fr, "frame-establish", fmt.Sprintf("loop%d/%s", h.ord, name), pre, nil, "")
			}
			if post, ok := fx.frameFormula(st, name, nv, fal, st.entryHeap, fx.entryAlloc); ok {
				st.assume(post)
				st.loopFrames = append(append([]string(nil), st.loopFrames...), fmt.Sprintf("%d|%s", h.ord, name))
			}
		}
	}
	na := fx.freshConst("alloc@loop", "Int")
	st.bumpAlloc(na)
	// thread-local counters stay natural numbers
	for _, name := range sortedKeys(mods) {
		if !strings.HasPrefix(name, "ghost.") {
			continue
		}
		g := fx.P.Specs.Ghosts[strings.TrimPrefix(name, "ghost.")]
		if g == nil || !g.ThreadLocal || g.Ret != "Int" {
			continue
		}
		cur := st.heap[name]
		switch len(g.Args) {
		case 0:
			st.assume("(>= " + cur + " 0)")
		case 1:
			is := arrayIndexSort(mods[name].sort)
			st.assume("(forall ((q.g " + is + ")) (>= (select " + cur + " q.g) 0))")
		}
	}
	// the havocked heap is a well-formed heap
	for _, name := range sortedKeys(mods) {
		if f := fx.heapWF(name, mods[name].sort, st.heap[name], na); f != "" && !strings.ContainsAny(st.heap[name], "( ") {
			st.assume(f)
		}
	}
	for _, ins := range b.Instrs {
		phi, ok := ins.(*ssa.Phi)
		if !ok {
			break
		}
		st.assumeWF(st.vals[phi], phi.Type())
		// auto invariant: counters that only grow
		for i, e := range phi.Edges {
			if !fx.loops(fr.fn).isBackEdge(b.Preds[i], b) {
				continue
			}
			if bo, ok := e.(*ssa.BinOp); ok && bo.Op == token.ADD && bo.X == phi {
				if c, ok := bo.Y.(*ssa.Const); ok && c.Value != nil && c.Int64() > 0 {
					st.assume("(>= " + st.vals[phi] + " " + entryVals[phi] + ")")
					// range-style loops: the header tests (phi + c) < bound with a
					// loop-invariant bound, so a value that came round the back
					// edge is below the bound
					// index-style loops: the header tests phi < len(x) with x
					// defined outside the loop, and the only way round is phi + 1
					// from an iteration that passed the test: phi <= len(x)
					if br, ok := b.Instrs[len(b.Instrs)-1].(*ssa.If); ok && c.Int64() == 1 {
						if cmp, ok := br.Cond.(*ssa.BinOp); ok && cmp.Op == token.LSS && cmp.X == ssa.Value(phi) {
							if lc, ok := cmp.Y.(*ssa.Call); ok {
								if bl, ok := lc.Common().Value.(*ssa.Builtin); ok && bl.Name() == "len" {
									arg := lc.Common().Args[0]
									outside := true
									if ai, isIns := arg.(ssa.Instruction); isIns && h.body[ai.Block()] {
										outside = false
									}
									if at, has := st.vals[arg]; has && outside {
										switch arg.Type().Underlying().(type) {
										case *types.Slice:
											st.assume("(<= " + st.vals[phi] + " (slen " + at + "))")
										case *types.Basic:
											st.assume("(<= " + st.vals[phi] + " (strlen " + at + "))")
										}
									}
								}
							}
						}
					}
					if br, ok := b.Instrs[len(b.Instrs)-1].(*ssa.If); ok {
						if cmp, ok := br.Cond.(*ssa.BinOp); ok && cmp.Op == token.LSS && cmp.X == ssa.Value(bo) && bo.Block() == b {
							if bi, isIns := cmp.Y.(ssa.Instruction); !isIns || !h.body[bi.Block()] {
								if bt, has := st.vals[cmp.Y]; has {
									st.assume("(or (= " + st.vals[phi] + " " + entryVals[phi] + ") (< " + st.vals[phi] + " " + bt + "))")
								} else if _, isC := cmp.Y.(*ssa.Const); isC {
									st.assume("(or (= " + st.vals[phi] + " " + entryVals[phi] + ") (< " + st.vals[phi] + " " + st.val(cmp.Y) + "))")
								}
							}
						}
					}
				}
			}
		}
	}
	// iterators: visited set becomes arbitrary
	if it := st.loopIters[lname]; it != nil {
		nv := fx.freshConst("visited", "(Array "+it.ks+" Bool)")
		nit := *it
		nit.visited = nv
		for k, v := range st.iters {
			if v == it {
				st.iters[k] = &nit
			}
		}
		st.loopIters[lname] = &nit
		// automatic invariant: only keys of the map are ever visited - valid as
		// long as the loop does not change the key set of a map of this type
		if !it.isStr {
			inName := mapInName(it.ks, it.vs)
			mi, modified := mods[inName]
			if !modified || mi.pointee {
				inH := st.heapGet(inName, "(Array Int (Array "+it.ks+" Bool))")
				sub := "(forall ((q.k " + it.ks + ")) (! (=> (select " + nv + " q.k) (and (not (= " + it.mapTerm + " 0)) (select (select " + inH + " " + it.mapTerm + ") q.k))) :pattern ((select " + nv + " q.k))))"
				if modified {
					// changed only through pointers of unknown type, which reach
					// pre-existing objects only: holds for a map this function made
					sub = "(=> (or (> " + it.mapTerm + " " + fx.entryAlloc + ") (= " + it.mapTerm + " 0)) " + sub + ")"
				}
				st.assume(sub)
			}
		}
	}
	// assume invariants
	if spec != nil {
		env := fx.loopEnv(st, fr, h)
		for _, c := range spec.Invariants {
			v, err := env.safeEval(c.Expr)
			if err != nil {
				continue // reported at establish
			}
			st.assume(v.t)
		}
		fx.vacuityStep(st, fr, fmt.Sprintf("loop%d", h.ord), vacPre)
		for i, c := range spec.Decreases {
			v, err := env.safeEval(c.Expr)
			if err != nil {
				panic(fmt.Sprintf("%s:%d: %v", c.File, c.Line, err))
			}
			name := fmt.Sprintf("dec.loop%d.%d", h.ord, i)
			st.decr()[name] = v.t
			fx.emit(st, fr, "decreases-bounded", fmt.Sprintf("loop%d/%d", h.ord, i+1), "(>= "+v.t+" 0)", c.Props, c.Src)
		}
	}
	return true
}

func (st *State) decr() map[string]Term {
	if st.decrVals == nil {
		st.decrVals = map[string]Term{}
	} else {
		// copy on write (cloned states share the map)
		m := make(map[string]Term, len(st.decrVals))
		for k, v := range st.decrVals {
			m[k] = v
		}
		st.decrVals = m
	}
	return st.decrVals
}

func (fx *FnExec) loopBack(st *State, fr *frame, h *loopHdr, b, pred *ssa.BasicBlock) {
	fx.evalPhis(st, b, pred)
	if fal := fx.topFrameAllowed(st); fal != nil {
		for _, lf := range st.loopFrames {
			parts := strings.SplitN(lf, "|", 2)
			if parts[0] != fmt.Sprint(h.ord) {
				continue
			}
			name := parts[1]
			if f, ok := fx.frameFormula(st, name, st.heap[name], fal, st.entryHeap, fx.entryAlloc); ok {
				fx.emit(st, fr, "frame-preserve", fmt.Sprintf("loop%d/%s", h.ord, name), f, nil, "")
			}
		}
	}
	spec := fx.loopSpec(fr, h)
	if spec != nil {
		env := fx.loopEnv(st, fr, h)
		for i, c := range spec.Invariants {
			v, err := env.safeEval(c.Expr)
			if err != nil {
				fx.bindingFailure(st, fr, fmt.Sprintf("loop%d/%s", h.ord, clauseName(c, i)), c, err)
				continue
			}
			fx.emit(st, fr, "inv-preserve", fmt.Sprintf("loop%d/%s", h.ord, clauseName(c, i)), v.t, c.Props, c.Src)
		}
		for i, c := range spec.Decreases {
			v, err := env.safeEval(c.Expr)
			if err != nil {
				panic(fmt.Sprintf("%s:%d: %v", c.File, c.Line, err))
			}
			name := fmt.Sprintf("dec.loop%d.%d", h.ord, i)
			if before, ok := st.decrVals[name]; ok {
				fx.emit(st, fr, "decreases", fmt.Sprintf("loop%d/%d", h.ord, i+1), "(< "+v.t+" "+before+")", c.Props, c.Src)
			}
		}
	}
	fx.paths++
}

// ---- modified-set analysis ----

type modScan struct {
	fx      *FnExec
	mods    map[string]modInfo
	inLoop  map[ssa.Value]bool // allocation sites executed inside the loop
	visited map[*ssa.Function]bool
	st      *State
	hdr     *loopHdr
	fr      *frame
	topFn   *ssa.Function
	modNames map[string]bool // pass 1 result: names of heap variables modified in the loop
}

// add records a modification. fresh: the written object was allocated inside
// the loop. point: the (loop-invariant) index written, or "" if unknown.
func (ms *modScan) addAt(name, srt string, fresh bool, point Term) {
	mi, ok := ms.mods[name]
	if !ok {
		mi = modInfo{sort: srt, freshOnly: true}
	}
	mi.sort = srt
	if fresh {
		mi.hasFresh = true
	} else {
		mi.freshOnly = false
		if point == "" {
			mi.whole = true
		} else {
			mi.points = append(mi.points, point)
		}
	}
	ms.mods[name] = mi
}

func (ms *modScan) add(name, srt string, fresh bool) { ms.addAt(name, srt, fresh, "") }

// invariantVal: the term of an SSA value that is fixed before the loop.
func (ms *modScan) invariantVal(fn *ssa.Function, v ssa.Value) (Term, bool) {
	if ms.st == nil || fn != ms.topFn {
		return "", false
	}
	switch x := v.(type) {
	case *ssa.Const, *ssa.Global, *ssa.Function:
		return ms.st.val(v), true
	case *ssa.Parameter, *ssa.FreeVar:
		if t, ok := ms.st.vals[v]; ok {
			return t, true
		}
		return "", false
	case ssa.Instruction:
		if ms.hdr.body[x.Block()] {
			return ms.derivedInvariant(fn, v)
		}
		if t, ok := ms.st.vals[v]; ok {
			return t, true
		}
	}
	return "", false
}

// derivedInvariant: values computed inside the loop from loop-invariant
// operands and heap variables the loop does not modify.
func (ms *modScan) derivedInvariant(fn *ssa.Function, v ssa.Value) (Term, bool) {
	if ms.modNames == nil {
		return "", false
	}
	fx := ms.fx
	switch x := v.(type) {
	case *ssa.UnOp:
		if x.Op != token.MUL {
			return "", false
		}
		fa, ok := x.X.(*ssa.FieldAddr)
		if !ok {
			// load from a local / captured cell the loop does not write
			switch x.X.(type) {
			case *ssa.FreeVar, *ssa.Alloc, *ssa.Parameter:
				if _, inv := ms.invariantVal(fn, x.X); !inv {
					return "", false
				}
				lv := ms.st.lvOf(x.X)
				if lv == nil || lv.kind != lvHeap || isGlobalLV(lv) || ms.modNames[lv.heap] {
					return "", false
				}
				return ms.st.load(lv), true
			}
			return "", false
		}
		base, ok := ms.invariantVal(fn, fa.X)
		if !ok {
			return "", false
		}
		if _, nested := ms.st.lvs[fa.X]; nested {
			return "", false
		}
		pt := fa.X.Type().Underlying().(*types.Pointer).Elem()
		f := pt.Underlying().(*types.Struct).Field(fa.Field)
		hn := heapNameForField(pt, f.Name())
		if ms.modNames[hn] {
			return "", false
		}
		return "(select " + ms.st.heapGet(hn, arrOf(fx.sortOf(f.Type()))) + " " + base + ")", true
	case *ssa.FieldAddr:
		base, ok := ms.invariantVal(fn, x.X)
		if !ok {
			return "", false
		}
		pt := x.X.Type().Underlying().(*types.Pointer).Elem()
		f := pt.Underlying().(*types.Struct).Field(x.Field)
		return fx.fieldAddrTerm(pt, f.Name(), base), true
	case *ssa.Field:
		b, ok := ms.invariantVal(fn, x.X)
		if !ok {
			return "", false
		}
		si := fx.structInfoOf(x.X.Type())
		if si == nil || si.opaque {
			return "", false
		}
		return "(" + si.fields[x.Field] + " " + b + ")", true
	case *ssa.ChangeType:
		return ms.invariantVal(fn, x.X)
	case *ssa.ChangeInterface:
		return ms.invariantVal(fn, x.X)
	case *ssa.MakeInterface:
		b, ok := ms.invariantVal(fn, x.X)
		if !ok {
			return "", false
		}
		return fmt.Sprintf("(mkiface %d %s)", fx.typeID(x.X.Type()), fx.box(fx.sortOf(x.X.Type()), b)), true
	}
	return "", false
}

func (fx *FnExec) loopMods(st *State, fr *frame, h *loopHdr) map[string]modInfo {
	// pass 1: names only
	p1 := fx.loopModsPass(nil, fr, h, nil)
	names := map[string]bool{}
	for k, mi := range p1 {
		// a variable written only at objects allocated inside the loop is
		// unchanged for everything that existed before
		if !mi.freshOnly || mi.sinceEntry {
			names[k] = true
		}
	}
	res := fx.loopModsPass(st, fr, h, names)
	if os.Getenv("GVC_DEBUG_MODS") != "" {
		for _, n := range sortedKeys(res) {
			mi := res[n]
			fmt.Fprintf(os.Stderr, "loopmods %s loop%d: %s whole=%v fresh=%v points=%d\n", fr.fn.Name(), h.ord, n, mi.whole, mi.hasFresh, len(mi.points))
		}
	}
	return res
}

func (fx *FnExec) loopModsPass(st *State, fr *frame, h *loopHdr, names map[string]bool) map[string]modInfo {
	ms := &modScan{fx: fx, mods: map[string]modInfo{}, inLoop: map[ssa.Value]bool{}, visited: map[*ssa.Function]bool{}, st: st, hdr: h, fr: fr, topFn: fr.fn, modNames: names}
	var blocks []*ssa.BasicBlock
	for b := range h.body {
		blocks = append(blocks, b)
	}
	sort.Slice(blocks, func(i, j int) bool { return blocks[i].Index < blocks[j].Index })
	for _, b := range blocks {
		for _, ins := range b.Instrs {
			switch v := ins.(type) {
			case *ssa.Alloc, *ssa.MakeSlice, *ssa.MakeMap, *ssa.MakeChan, *ssa.MakeClosure:
				ms.inLoop[v.(ssa.Value)] = true
			}
		}
	}
	for _, b := range blocks {
		for _, ins := range b.Instrs {
			ms.scanInstr(fr.fn, ins, true)
			if fr.fc != nil && len(fr.fc.GhostSets) > 0 {
				if gss, ok := fr.fc.GhostSets[fx.ord(fr.fn, ins, "")]; ok {
					env := &evalEnv{fx: fx}
					for _, gs := range gss {
						for _, g := range fr.fc.GhostVars {
							if g.Name == gs.Name {
								rs, _ := env.resolveType(g.Type)
								ms.add("gv."+g.Name, rs, false)
							}
						}
					}
				}
			}
		}
	}
	// deferred calls run at function exit, not in the loop
	return ms.mods
}

// isFreshBase reports whether the pointer v denotes an object allocated inside the loop.
func (ms *modScan) isFreshBase(v ssa.Value) bool {
	switch x := v.(type) {
	case *ssa.Alloc:
		return ms.inLoop[x]
	case *ssa.MakeSlice, *ssa.MakeMap, *ssa.MakeChan:
		return ms.inLoop[x]
	case *ssa.FieldAddr:
		return ms.isFreshBase(x.X)
	case *ssa.IndexAddr:
		return ms.isFreshBase(x.X)
	case *ssa.Slice:
		return ms.isFreshBase(x.X)
	case *ssa.ChangeType:
		return ms.isFreshBase(x.X)
	}
	return false
}

func (ms *modScan) storeTarget(fn *ssa.Function, addr ssa.Value) {
	fx := ms.fx
	fresh := ms.isFreshBase(addr)
	switch a := addr.(type) {
	case *ssa.FieldAddr:
		// walk to the root field (nested struct values live in the root's heap)
		root := a
		for {
			if in, ok := root.X.(*ssa.FieldAddr); ok {
				pt := in.X.Type().Underlying().(*types.Pointer).Elem()
				ft := pt.Underlying().(*types.Struct).Field(in.Field).Type()
				if _, isStruct := ft.Underlying().(*types.Struct); isStruct {
					root = in
					continue
				}
			}
			break
		}
		pt := root.X.Type().Underlying().(*types.Pointer).Elem()
		f := pt.Underlying().(*types.Struct).Field(root.Field)
		point, _ := ms.invariantVal(fn, root.X)
		if ms.st != nil {
			if _, nested := ms.st.lvs[root.X]; nested {
				point = ""
			}
		}
		ms.addAt(heapNameForField(pt, f.Name()), arrOf(fx.sortOf(f.Type())), fresh, point)
	case *ssa.IndexAddr:
		var et types.Type
		switch u := a.X.Type().Underlying().(type) {
		case *types.Slice:
			et = u.Elem()
		case *types.Pointer:
			et = u.Elem().Underlying().(*types.Array).Elem()
		}
		es := fx.elemSort(et)
		ms.add("Mem."+sanitize(es), "(Array Int "+arrOf(es)+")", fresh)
	case *ssa.Global:
		// globals are immutable by census
	default:
		et := addr.Type().Underlying().(*types.Pointer).Elem()
		if stt, ok := et.Underlying().(*types.Struct); ok {
			si := fx.structInfoOf(et)
			if si != nil && !si.opaque {
				for i := 0; i < stt.NumFields(); i++ {
					ms.add(heapNameForField(et, stt.Field(i).Name()), arrOf(si.fsorts[i]), fresh)
				}
				return
			}
		}
		if _, ok := et.Underlying().(*types.Array); ok {
			return
		}
		srt := fx.sortOf(et)
		point := ""
		if t, ok := ms.invariantVal(fn, addr); ok && ms.st != nil {
			if lv := ms.st.lvs[addr]; lv != nil && lv.kind == lvHeap && lv.heap == "Cell."+sanitize(srt) {
				point = lv.idx
			} else if lv == nil {
				point = t
			}
		}
		ms.addAt("Cell."+sanitize(srt), arrOf(srt), fresh, point)
	}
}

func (ms *modScan) mapMod(mt *types.Map, fresh bool) { ms.mapModAt(mt, fresh, "") }

func (ms *modScan) mapModAt(mt *types.Map, fresh bool, point Term) {
	ks, vs := ms.fx.mapKV(mt)
	ms.addAt(mapInName(ks, vs), "(Array Int (Array "+ks+" Bool))", fresh, point)
	ms.addAt(mapValName(ks, vs), "(Array Int (Array "+ks+" "+vs+"))", fresh, point)
	ms.addAt("MapLen", arrOf("Int"), fresh, point)
}

func (ms *modScan) chanMod(et types.Type, fresh bool) {
	ms.add("ghost.chancap", arrOf("Int"), fresh)
	ms.add("ghost.chanlen", arrOf("Int"), fresh)
	ms.add("ghost.chanclosed", arrOf("Bool"), fresh)
	ms.add("ghost.chansends", arrOf("Int"), fresh)
	if et != nil {
		es := ms.fx.sortOf(et)
		ms.add("ghost.chanval."+sanitize(es), arrOf(es), fresh)
	}
}

func (ms *modScan) scanInstr(fn *ssa.Function, ins ssa.Instruction, top bool) {
	fx := ms.fx
	switch x := ins.(type) {
	case *ssa.Store:
		ms.storeTarget(fn, x.Addr)
	case *ssa.Alloc:
		et := x.Type().Underlying().(*types.Pointer).Elem()
		switch u := et.Underlying().(type) {
		case *types.Struct:
			si := fx.structInfoOf(et)
			if si != nil && !si.opaque {
				for i := 0; i < u.NumFields(); i++ {
					ms.add(heapNameForField(et, u.Field(i).Name()), arrOf(si.fsorts[i]), true)
				}
			} else {
				for _, fc := range fx.P.Specs.Funcs["new:"+typeName(et)] {
					ms.contractMods(fc, nil, true)
				}
			}
		case *types.Array:
			es := fx.elemSort(u.Elem())
			ms.add("Mem."+sanitize(es), "(Array Int "+arrOf(es)+")", true)
		default:
			srt := fx.sortOf(et)
			ms.add("Cell."+sanitize(srt), arrOf(srt), true)
		}
	case *ssa.MakeSlice:
		es := fx.elemSort(x.Type().Underlying().(*types.Slice).Elem())
		ms.add("Mem."+sanitize(es), "(Array Int "+arrOf(es)+")", true)
	case *ssa.MakeMap:
		ms.mapMod(x.Type().Underlying().(*types.Map), true)
	case *ssa.MakeChan:
		ms.chanMod(nil, true)
	case *ssa.MapUpdate:
		pt, _ := ms.invariantVal(fn, x.Map)
		ms.mapModAt(x.Map.Type().Underlying().(*types.Map), ms.isFreshBase(x.Map), pt)
	case *ssa.Send:
		ms.chanMod(x.X.Type(), false)
	case *ssa.Select:
		for _, s := range x.States {
			ms.chanMod(s.Chan.Type().Underlying().(*types.Chan).Elem(), false)
		}
	case *ssa.UnOp:
		if x.Op == token.ARROW {
			ms.chanMod(nil, false)
		}
	case *ssa.Convert:
		if fx.sortOf(x.X.Type()) == "Str" && fx.sortOf(x.Type()) == "Slice" {
			bmn, bms := ms.fx.byteMem()
			ms.add(bmn, bms, true)
		}
	case *ssa.Call:
		ms.scanCall(fn, x.Common(), x)
	case *ssa.Go:
		ms.scanCall(fn, x.Common(), x)
	case *ssa.Defer:
		// runs at function exit
	case *ssa.RunDefers:
		for _, b := range fn.Blocks {
			for _, i2 := range b.Instrs {
				if d, ok := i2.(*ssa.Defer); ok {
					ms.scanCall(fn, d.Common(), d)
				}
			}
		}
	}
}

func (ms *modScan) scanCall(fn *ssa.Function, cc *ssa.CallCommon, site ssa.Instruction) {
	fx := ms.fx
	if b, ok := cc.Value.(*ssa.Builtin); ok {
		switch b.Name() {
		case "append":
			es := fx.elemSort(cc.Args[0].Type().Underlying().(*types.Slice).Elem())
			name, srt := "Mem."+sanitize(es), "(Array Int "+arrOf(es)+")"
			switch {
			case ms.isFreshBase(cc.Args[0]):
				ms.add(name, srt, true)
			case localBuilt(cc.Args[0], map[ssa.Value]bool{}):
				ms.add(name, srt, true)
			default:
				// may write in place into an array that exists elsewhere
				ms.add(name, srt, false)
			}
		case "copy":
			es := fx.elemSort(cc.Args[0].Type().Underlying().(*types.Slice).Elem())
			ms.add("Mem."+sanitize(es), "(Array Int "+arrOf(es)+")", false)
		case "delete":
			pt, _ := ms.invariantVal(fn, cc.Args[0])
			ms.mapModAt(cc.Args[0].Type().Underlying().(*types.Map), ms.isFreshBase(cc.Args[0]), pt)
		case "close":
			ms.chanMod(nil, false)
		}
		return
	}
	tgt := fx.resolveStatic(fn, cc)
	switch tgt.kind {
	case ctContract:
		if !ms.contractModsAt(fn, cc, tgt) {
			ms.contractMods(tgt.fc, tgt.fn, false)
		}
		ms.monitorMods(cc, tgt.key)
	case ctInline:
		if ms.visited[tgt.fn] {
			return
		}
		ms.visited[tgt.fn] = true
		for _, b := range tgt.fn.Blocks {
			for _, ins := range b.Instrs {
				switch v := ins.(type) {
				case *ssa.Alloc, *ssa.MakeSlice, *ssa.MakeMap, *ssa.MakeChan:
					ms.inLoop[v.(ssa.Value)] = true
				}
			}
		}
		for _, b := range tgt.fn.Blocks {
			for _, ins := range b.Instrs {
				ms.scanInstr(tgt.fn, ins, false)
			}
		}
	default:
		// havoc: pointees of pointer arguments, memory of slice arguments
		args := cc.Args
		if cc.IsInvoke() {
			args = append([]ssa.Value{}, cc.Args...)
		}
		for _, a := range args {
			ms.havocArgMods(a)
		}
	}
}

func (ms *modScan) havocArgMods(a ssa.Value) {
	fx := ms.fx
	if mi, ok := a.(*ssa.MakeInterface); ok {
		a = mi.X
	}
	switch u := a.Type().Underlying().(type) {
	case *types.Pointer:
		if _, isStruct := u.Elem().Underlying().(*types.Struct); isStruct {
			si := fx.structInfoOf(u.Elem())
			if si != nil && !si.opaque && fx.P.inModuleType(u.Elem()) {
				stt := u.Elem().Underlying().(*types.Struct)
				for i := 0; i < stt.NumFields(); i++ {
					ms.add(heapNameForField(u.Elem(), stt.Field(i).Name()), arrOf(si.fsorts[i]), false)
				}
			}
			return
		}
		ms.storeTarget(nil, a)
	case *types.Slice:
		es := fx.elemSort(u.Elem())
		ms.add("Mem."+sanitize(es), "(Array Int "+arrOf(es)+")", false)
	}
}

func (p *Prog) inModuleType(t types.Type) bool {
	if n, ok := types.Unalias(t).(*types.Named); ok && n.Obj().Pkg() != nil {
		return p.inModule(n.Obj().Pkg().Path())
	}
	return false
}

// contractModsAt: when every argument of the call is fixed before the loop, the
// modifies targets can be evaluated at loop entry and become point updates.
func (ms *modScan) contractModsAt(fn *ssa.Function, cc *ssa.CallCommon, tgt callTarget) (ok bool) {
	if ms.st == nil || fn != ms.topFn {
		return false
	}
	vals := append([]ssa.Value{}, cc.Args...)
	switch cc.Value.(type) {
	case *ssa.Function, *ssa.Builtin:
	default:
		vals = append(vals, cc.Value)
	}
	defer func() {
		if r := recover(); r != nil {
			ok = false
		}
	}()
	// values computed inside the loop from invariant operands: bind their terms
	tmp := ms.st.clone()
	for _, a := range vals {
		if t, inv := ms.invariantVal(fn, a); inv {
			switch a.(type) {
			case *ssa.Const, *ssa.Global, *ssa.Function:
			default:
				tmp.vals[a] = t
			}
		} else {
			// not fixed before the loop: a target that mentions it is not a point
			tmp.vals[a] = "!poison"
			delete(tmp.lvs, a)
		}
		if mi, isMI := a.(*ssa.MakeInterface); isMI {
			if t, inv := ms.invariantVal(fn, mi.X); inv {
				switch mi.X.(type) {
				case *ssa.Const, *ssa.Global, *ssa.Function:
				default:
					tmp.vals[mi.X] = t
				}
			}
		}
	}
	if mc, isMC := cc.Value.(*ssa.MakeClosure); isMC && tgt.closure == nil {
		// closure created inside the loop: its captured values
		ci := &closureInfo{fn: mc.Fn.(*ssa.Function)}
		for _, b := range mc.Bindings {
			t, inv := ms.invariantVal(fn, b)
			if !inv {
				t = "!poison"
			}
			ci.bindings = append(ci.bindings, t)
			var blv *LValue
			if inv {
				if l, has := tmp.lvs[b]; has {
					blv = l
				}
			}
			ci.bindLVs = append(ci.bindLVs, blv)
			ci.bindVals = append(ci.bindVals, b)
		}
		tgt.closure = ci
		tgt.fn = ci.fn
		tmp.vals[mc] = "0"
	}
	args := ms.fx.evalArgs(tmp, cc)
	var sig *types.Signature
	if tgt.fn != nil {
		sig = tgt.fn.Signature
	} else {
		sig = cc.Signature()
	}
	env := ms.fx.contractEnv(tmp, tgt, sig, cc, args)
	type pm struct {
		name, sort string
		pt         Term
	}
	var out []pm
	addTargets := func(m Expr) {
		// `*p` where the actual argument is an object allocated inside the loop
		if u, isU := m.(*EUnary); isU && u.Op == "*" {
			if id, isId := u.X.(*EIdent); isId && tgt.fn != nil {
				for pi, prm := range tgt.fn.Params {
					if prm.Name() == id.Name && pi < len(cc.Args) && ms.isFreshBase(cc.Args[pi]) {
						for _, hv := range ms.fx.staticModTargets(m, tgt.fc, tgt.fn) {
							ms.addAt(hv.name, hv.sort, true, "")
						}
						return
					}
				}
			}
		}
		switch x := m.(type) {
		case *EField:
			b := env.eval(x.X)
			pt, _ := derefType(b.typ)
			_, f := findField(pt.Underlying().(*types.Struct), x.Name)
			out = append(out, pm{heapNameForField(pt, x.Name), arrOf(ms.fx.sortOf(f.Type())), b.t})
		case *ECall:
			switch x.Fn {
			case "map":
				mv := env.eval(x.Args[0])
				ks, vs, _ := env.mapSorts(mv)
				out = append(out, pm{mapInName(ks, vs), "(Array Int (Array " + ks + " Bool))", mv.t}, pm{mapValName(ks, vs), "(Array Int (Array " + ks + " " + vs + "))", mv.t}, pm{"MapLen", arrOf("Int"), mv.t})
			case "mem":
				sv := env.eval(x.Args[0])
				es, _ := env.elemOf(sv.typ)
				out = append(out, pm{"Mem." + sanitize(es), "(Array Int " + arrOf(es) + ")", "(sptr " + sv.t + ")"})
			default:
				g, isG := ms.fx.P.Specs.Ghosts[x.Fn]
				if !isG {
					panic("not point")
				}
				if len(g.Args) == 0 {
					panic("not point")
				}
				out = append(out, pm{"ghost." + x.Fn, ms.fx.ghostSort(g), env.eval(x.Args[0]).t})
			}
		default:
			// not a single location: the whole variable(s)
			for _, hv := range ms.fx.staticModTargets(m, tgt.fc, tgt.fn) {
				out = append(out, pm{hv.name, hv.sort, "!poison"})
			}
		}
	}
	for _, m := range tgt.fc.Modifies {
		addTargets(m)
	}
	for _, tr := range tgt.fc.Transfers {
		addTargets(tr.Ghost)
	}
	for _, p := range out {
		if strings.Contains(p.pt, "!poison") {
			ms.addAt(p.name, p.sort, false, "")
		} else {
			ms.addAt(p.name, p.sort, false, p.pt)
		}
	}
	return true
}

// contractMods adds the heap variables named by a contract's modifies clauses.
func (ms *modScan) contractMods(fc *FuncContract, fn *ssa.Function, fresh bool) {
	fx := ms.fx
	for _, m := range fc.Modifies {
		for _, hv := range fx.staticModTargets(m, fc, fn) {
			ms.add(hv.name, hv.sort, fresh)
		}
	}
	for _, tr := range fc.Transfers {
		for _, hv := range fx.staticModTargets(tr.Ghost, fc, fn) {
			ms.add(hv.name, hv.sort, false)
		}
	}
}

func (ms *modScan) monitorMods(cc *ssa.CallCommon, key string) {
	fx := ms.fx
	if key != "(*sync.Mutex).Lock" {
		return
	}
	mon, _, _ := fx.monitorOfValue(cc.Args[0])
	if mon == nil {
		return
	}
	owner := ""
	if ms.st != nil {
		if _, ov, ok := fx.monitorOfValue(cc.Args[0]); ok {
			if t, inv := ms.invariantVal(ms.topFn, ov); inv {
				owner = t
			}
		}
	}
	for _, g := range mon.guardExprs(fx) {
		if owner != "" {
			if pts, ok := ms.guardPoints(mon, g, owner); ok {
				for _, p := range pts {
					ms.addAt(p.name, p.sort, false, p.pt)
				}
				continue
			}
		}
		for _, hv := range fx.staticModTargetsTyped(g, map[string]types.Type{mon.Owner: mon.ownerType(fx)}, fx.P.TypesPkgs[mon.Pkg]) {
			ms.add(hv.name, hv.sort, false)
		}
	}
}

type pointMod struct {
	name, sort string
	pt         Term
}

// guardPoints evaluates one guard lvalue of a monitor for a fixed owner.
func (ms *modScan) guardPoints(mon *Monitor, g Expr, owner Term) (out []pointMod, ok bool) {
	defer func() {
		if r := recover(); r != nil {
			ok = false
		}
	}()
	fx := ms.fx
	env := fx.monitorEnv(ms.st, mon, owner)
	switch x := g.(type) {
	case *EField:
		b := env.eval(x.X)
		pt, _ := derefType(b.typ)
		_, f := findField(pt.Underlying().(*types.Struct), x.Name)
		return []pointMod{{heapNameForField(pt, x.Name), arrOf(fx.sortOf(f.Type())), b.t}}, true
	case *ECall:
		switch x.Fn {
		case "map":
			mv := env.eval(x.Args[0])
			ks, vs, _ := env.mapSorts(mv)
			return []pointMod{{mapInName(ks, vs), "(Array Int (Array " + ks + " Bool))", mv.t}, {mapValName(ks, vs), "(Array Int (Array " + ks + " " + vs + "))", mv.t}, {"MapLen", arrOf("Int"), mv.t}}, true
		default:
			if gd, isG := fx.P.Specs.Ghosts[x.Fn]; isG && len(gd.Args) >= 1 {
				return []pointMod{{"ghost." + x.Fn, fx.ghostSort(gd), env.eval(x.Args[0]).t}}, true
			}
		}
	}
	return nil, false
}

type heapVarRef struct{ name, sort string }

func (fx *FnExec) staticModTargets(m Expr, fc *FuncContract, fn *ssa.Function) []heapVarRef {
	vars := map[string]types.Type{}
	if fn != nil {
		for _, p := range fn.Params {
			vars[p.Name()] = p.Type()
		}
		for _, fv := range fn.FreeVars {
			if pt, ok := fv.Type().Underlying().(*types.Pointer); ok {
				vars[fv.Name()] = pt.Elem()
			} else {
				vars[fv.Name()] = fv.Type()
			}
		}
		if fn.Signature.Results() != nil {
			rs := fn.Signature.Results()
			for i := 0; i < rs.Len(); i++ {
				if rs.At(i).Name() != "" {
					vars[rs.At(i).Name()] = rs.At(i).Type()
				}
			}
			if rs.Len() == 1 {
				vars["result"] = rs.At(0).Type()
			}
		}
	}
	var pkg *types.Package
	if fc != nil && fc.Pkg != "" {
		pkg = fx.P.TypesPkgs[fc.Pkg]
	} else if fn != nil && fn.Pkg != nil {
		pkg = fn.Pkg.Pkg
	}
	return fx.staticModTargetsTyped(m, vars, pkg)
}

// wholeFieldTarget: `modifies T.f` with T a struct type name denotes the field
// f of EVERY T object.
func (fx *FnExec) wholeFieldTarget(x *EField, isVar func(string) bool, pkg *types.Package) (heapVarRef, bool) {
	if q, isQ := x.X.(*EField); isQ {
		// pkg.Type.field
		if pid, isID := q.X.(*EIdent); isID && !isVar(pid.Name) {
			if p := fx.P.lookupPkg(pid.Name); p != nil {
				return fx.wholeFieldTarget(&EField{X: &EIdent{Name: q.Name}, Name: x.Name}, func(string) bool { return false }, p)
			}
		}
		return heapVarRef{}, false
	}
	id, ok := x.X.(*EIdent)
	if !ok || isVar(id.Name) || pkg == nil {
		return heapVarRef{}, false
	}
	tn, ok := pkg.Scope().Lookup(id.Name).(*types.TypeName)
	if !ok {
		return heapVarRef{}, false
	}
	stt, ok := tn.Type().Underlying().(*types.Struct)
	if !ok {
		return heapVarRef{}, false
	}
	_, f := findField(stt, x.Name)
	if f == nil {
		return heapVarRef{}, false
	}
	return heapVarRef{heapNameForField(tn.Type(), f.Name()), arrOf(fx.sortOf(f.Type()))}, true
}

func (fx *FnExec) staticModTargetsTyped(m Expr, vars map[string]types.Type, pkg *types.Package) []heapVarRef {
	switch x := m.(type) {
	case *EField:
		if hv, ok := fx.wholeFieldTarget(x, func(n string) bool { _, is := vars[n]; return is }, pkg); ok {
			return []heapVarRef{hv}
		}
		bt := fx.staticType(x.X, vars, pkg)
		if bt == nil {
			panic(evalErr{"modifies: cannot type " + x.X.String()})
		}
		pt, ok := derefType(bt)
		if !ok {
			panic(evalErr{"modifies: " + x.X.String() + " is not a pointer"})
		}
		stt := pt.Underlying().(*types.Struct)
		_, f := findField(stt, x.Name)
		if f == nil {
			panic(evalErr{"modifies: no field " + x.Name})
		}
		return []heapVarRef{{heapNameForField(pt, f.Name()), arrOf(fx.sortOf(f.Type()))}}
	case *EUnary:
		if x.Op == "*" {
			bt := fx.staticType(x.X, vars, pkg)
			if pt, ok := derefType(bt); ok {
				srt := fx.sortOf(pt)
				// could be a field/elem lvalue at the call site: conservatively the cell heap;
				// call sites with known lvalues add their own target.
				return []heapVarRef{{"Cell." + sanitize(srt), arrOf(srt)}}
			}
			return nil
		}
	case *ECall:
		switch x.Fn {
		case "pointee", "pointees":
			// an object reached through a pointer of unknown type: any real heap variable
			return []heapVarRef{{"*pointee", ""}}
		case "map":
			mt0 := fx.staticType(x.Args[0], vars, pkg)
			if mt0 == nil {
				panic(evalErr{"modifies: cannot type " + x.Args[0].String()})
			}
			mt := mt0.Underlying().(*types.Map)
			ks, vs := fx.mapKV(mt)
			return []heapVarRef{{mapInName(ks, vs), "(Array Int (Array " + ks + " Bool))"}, {mapValName(ks, vs), "(Array Int (Array " + ks + " " + vs + "))"}, {"MapLen", arrOf("Int")}}
		case "mem":
			st0 := fx.staticType(x.Args[0], vars, pkg)
			es := "Int"
			if st0 != nil {
				if sl, ok := st0.Underlying().(*types.Slice); ok {
					es = fx.elemSort(sl.Elem())
				}
			}
			return []heapVarRef{{"Mem." + sanitize(es), "(Array Int " + arrOf(es) + ")"}}
		}
		if g, ok := fx.P.Specs.Ghosts[x.Fn]; ok {
			return []heapVarRef{{"ghost." + x.Fn, fx.ghostSort(g)}}
		}
	case *EIdent:
		if g, ok := fx.P.Specs.Ghosts[x.Name]; ok {
			return []heapVarRef{{"ghost." + x.Name, fx.ghostSort(g)}}
		}
		if t, ok := vars[x.Name]; ok {
			// a captured variable (cell)
			if _, isStruct := t.Underlying().(*types.Struct); !isStruct {
				srt := fx.sortOf(t)
				return []heapVarRef{{"Cell." + sanitize(srt), arrOf(srt)}}
			}
		}
	}
	panic(evalErr{"unsupported modifies target " + m.String()})
}

func (fx *FnExec) ghostSort(g *GhostDecl) string {
	env := &evalEnv{fx: fx}
	rs, _ := env.resolveType(g.Ret)
	full := rs
	for i := len(g.Args) - 1; i >= 0; i-- {
		as, _ := env.resolveType(g.Args[i])
		full = "(Array " + as + " " + full + ")"
	}
	return full
}

// staticType computes the Go type of a contract expression without a state.
func (fx *FnExec) staticType(e Expr, vars map[string]types.Type, pkg *types.Package) types.Type {
	switch x := e.(type) {
	case *EIdent:
		if t, ok := vars[x.Name]; ok {
			return t
		}
		if pkg != nil {
			if obj := pkg.Scope().Lookup(x.Name); obj != nil {
				return obj.Type()
			}
		}
	case *EField:
		bt := fx.staticType(x.X, vars, pkg)
		if bt == nil {
			return nil
		}
		if pt, ok := derefType(bt); ok {
			bt = pt
		}
		if stt, ok := bt.Underlying().(*types.Struct); ok {
			if _, f := findField(stt, x.Name); f != nil {
				return f.Type()
			}
			for i := 0; i < stt.NumFields(); i++ {
				if stt.Field(i).Embedded() {
					if t := fx.staticType(&EField{&EField{x.X, stt.Field(i).Name()}, x.Name}, vars, pkg); t != nil {
						return t
					}
				}
			}
		}
	case *EIndex:
		bt := fx.staticType(x.X, vars, pkg)
		if bt != nil {
			if sl, ok := bt.Underlying().(*types.Slice); ok {
				return sl.Elem()
			}
		}
	case *ECall:
		switch x.Fn {
		case "lookup":
			bt := fx.staticType(x.Args[0], vars, pkg)
			if bt != nil {
				if mt, ok := bt.Underlying().(*types.Map); ok {
					return mt.Elem()
				}
			}
		case "old":
			return fx.staticType(x.Args[0], vars, pkg)
		case "fieldaddr":
			bt := fx.staticType(x.Args[0], vars, pkg)
			if pt, ok := derefType(bt); ok {
				if stt, ok := pt.Underlying().(*types.Struct); ok {
					if _, f := findField(stt, x.Args[1].String()); f != nil {
						return types.NewPointer(f.Type())
					}
				}
			}
		}
	case *EUnary:
		if x.Op == "*" {
			if pt, ok := derefType(fx.staticType(x.X, vars, pkg)); ok {
				return pt
			}
		}
	}
	return nil
}

var _ = strings.Contains


// topFrameAllowed: the modifies set of the function under verification,
// evaluated at its entry (nil when there is no contract to frame against).
func (fx *FnExec) topFrameAllowed(st *State) map[string]*frameAllow {
	if fx.fc == nil || fx.fn == nil {
		return nil
	}
	if fx.topAllowed != nil {
		return fx.topAllowed
	}
	top := &frame{fn: fx.fn, fc: fx.fc}
	// parameters at their entry values
	tmp := st.clone()
	for _, p := range fx.fn.Params {
		tmp.vals[p] = "p." + sanitize(p.Name())
	}
	for _, fv := range fx.fn.FreeVars {
		tmp.vals[fv] = "fv." + sanitize(fv.Name())
	}
	env := fx.frameEnv(tmp, top)
	func() {
		defer func() {
			if r := recover(); r != nil {
				fx.topAllowed = nil
			}
		}()
		fx.topAllowed = fx.frameAllowed(env, fx.fc.Modifies, st.entryHeap)
	}()
	return fx.topAllowed
}
