package main

// Mutants are unified diffs against /repo. They are applied to scratch copies
// of the touched files (under the run's work directory) and handed to
// go/packages as an overlay, so /repo itself is never modified or copied.

import (
	"fmt"
	"os"
	"os/exec"
	"path/filepath"
	"regexp"
	"strings"
)

var diffFileRe = regexp.MustCompile(`(?m)^\+\+\+ (?:b/)?(\S+)`)

func overlayFromPatch(repo, patchFile string) (map[string][]byte, error) {
	data, err := os.ReadFile(patchFile)
	if err != nil {
		return nil, err
	}
	ms := diffFileRe.FindAllStringSubmatch(string(data), -1)
	if len(ms) == 0 {
		return nil, fmt.Errorf("%s: no files in patch", patchFile)
	}
	tmp := filepath.Join(workDir, fmt.Sprintf("mut-%d", len(patchFile)+int(queryCtr)))
	os.RemoveAll(tmp)
	defer os.RemoveAll(tmp)
	ov := map[string][]byte{}
	var files []string
	for _, m := range ms {
		rel := m[1]
		if rel == "/dev/null" {
			continue
		}
		files = append(files, rel)
		dst := filepath.Join(tmp, rel)
		os.MkdirAll(filepath.Dir(dst), 0o755)
		if src, err := os.ReadFile(filepath.Join(repo, rel)); err == nil {
			os.WriteFile(dst, src, 0o644)
		}
	}
	cmd := exec.Command("patch", "-p1", "-s", "-i", absPath(patchFile))
	cmd.Dir = tmp
	if out, err := cmd.CombinedOutput(); err != nil {
		return nil, fmt.Errorf("patch %s: %v: %s", patchFile, err, strings.TrimSpace(string(out)))
	}
	for _, rel := range files {
		b, err := os.ReadFile(filepath.Join(tmp, rel))
		if err != nil {
			return nil, err
		}
		ov[filepath.Join(repo, rel)] = b
	}
	return ov, nil
}

func absPath(p string) string {
	a, err := filepath.Abs(p)
	if err != nil {
		return p
	}
	return a
}
