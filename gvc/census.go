package main

// Census: structural, package-wide obligations recomputed from the SSA on every
// run ("Recv is called only in Server.read", "Handler values are called only
// in invoke", "no package-level variable is stored to outside init").

import (
	"fmt"
	"go/types"
	"sort"
	"strings"

	"golang.org/x/tools/go/ssa"
)

type censusResult struct {
	name   string
	ok     bool
	detail string
	sites  []string
}

func (P *Prog) moduleFuncs() []*ssa.Function {
	var out []*ssa.Function
	seen := map[*ssa.Function]bool{}
	var add func(f *ssa.Function)
	add = func(f *ssa.Function) {
		if f == nil || seen[f] {
			return
		}
		seen[f] = true
		out = append(out, f)
		for _, a := range f.AnonFuncs {
			add(a)
		}
	}
	for _, fn := range P.Funcs {
		pkg := fn.Pkg
		if pkg == nil && fn.Parent() != nil {
			pkg = fn.Parent().Pkg
		}
		if pkg == nil || !P.inModule(pkg.Pkg.Path()) {
			continue
		}
		if strings.HasSuffix(pkg.Pkg.Path(), "/internal/testutil") || strings.HasSuffix(pkg.Pkg.Path(), "/godeps") || strings.Contains(pkg.Pkg.Path(), "/tools") {
			continue
		}
		if len(fn.Blocks) == 0 {
			continue
		}
		add(fn)
	}
	sort.Slice(out, func(i, j int) bool { return out[i].String() < out[j].String() })
	return out
}

func censusFnSet(c *Census, args []string) map[string]bool {
	m := map[string]bool{}
	for _, a := range args {
		m[stripTypeArgs(qualifyKey(a, c.Pkg))] = true
	}
	return m
}

func runCensus(P *Prog, c *Census) *censusResult {
	res := &censusResult{name: c.Name, ok: true}
	fail := func(site string) {
		res.ok = false
		res.sites = append(res.sites, site)
	}
	// split args at "only-in" / "in"
	var head, tail []string
	split := -1
	for i, a := range c.Args {
		if a == "only-in" || a == "in" {
			split = i
			break
		}
	}
	if split >= 0 {
		head, tail = c.Args[:split], c.Args[split+1:]
	} else {
		head = c.Args
	}
	allowed := censusFnSet(c, tail)
	count := 0
	switch c.Rule {
	case "calls-of-sig":
		// calls through function VALUES whose type is the named func type
		pkg := P.TypesPkgs[c.Pkg]
		obj := pkg.Scope().Lookup(head[0])
		if obj == nil {
			res.ok, res.detail = false, "unknown type "+head[0]
			return res
		}
		sig := obj.Type().Underlying()
		for _, fn := range P.moduleFuncs() {
			for _, b := range fn.Blocks {
				for _, ins := range b.Instrs {
					cc := callCommonOf(ins)
					if cc == nil || cc.IsInvoke() {
						continue
					}
					switch cc.Value.(type) {
					case *ssa.Function, *ssa.Builtin, *ssa.MakeClosure:
						continue
					}
					if types.Identical(cc.Value.Type().Underlying(), sig) {
						count++
						if !allowed[fnKey(fn)] {
							fail(fmt.Sprintf("%s calls a %s value", fnKey(fn), head[0]))
						}
					}
				}
			}
		}
	case "invokes":
		// interface method calls named head[0] whose receiver interface is one of head[1:] (or any)
		for _, fn := range P.moduleFuncs() {
			for _, b := range fn.Blocks {
				for _, ins := range b.Instrs {
					cc := callCommonOf(ins)
					if cc == nil || !cc.IsInvoke() || cc.Method.Name() != head[0] {
						continue
					}
					if len(head) > 1 {
						tn := typeName(types.Unalias(cc.Value.Type()))
						match := false
						for _, h := range head[1:] {
							if strings.HasSuffix(tn, h) {
								match = true
							}
						}
						if !match {
							continue
						}
					}
					count++
					if !allowed[fnKey(fn)] {
						fail(fmt.Sprintf("%s invokes %s", fnKey(fn), head[0]))
					}
				}
			}
		}
	case "calls":
		target := stripTypeArgs(qualifyKey(head[0], c.Pkg))
		for _, fn := range P.moduleFuncs() {
			for _, b := range fn.Blocks {
				for _, ins := range b.Instrs {
					cc := callCommonOf(ins)
					if cc == nil {
						continue
					}
					if callee := cc.StaticCallee(); callee != nil && fnKey(callee) == target {
						count++
						if !allowed[fnKey(fn)] {
							fail(fmt.Sprintf("%s calls %s", fnKey(fn), target))
						}
					}
				}
			}
		}
	case "field-calls":
		// method calls whose receiver is (the address or value of) field head[0]
		// (Type.field) and whose method is head[1]
		for _, fn := range P.moduleFuncs() {
			for _, b := range fn.Blocks {
				for _, ins := range b.Instrs {
					cc := callCommonOf(ins)
					if cc == nil || cc.IsInvoke() || len(cc.Args) == 0 {
						continue
					}
					callee := cc.StaticCallee()
					if callee == nil || callee.Name() != head[1] {
						continue
					}
					var fa *ssa.FieldAddr
					switch r := cc.Args[0].(type) {
					case *ssa.FieldAddr:
						fa = r
					case *ssa.UnOp:
						fa, _ = r.X.(*ssa.FieldAddr)
					}
					if fa == nil {
						continue
					}
					pt := fa.X.Type().Underlying().(*types.Pointer).Elem()
					f := pt.Underlying().(*types.Struct).Field(fa.Field)
					if !strings.HasSuffix(typeName(pt)+"."+f.Name(), "."+head[0]) {
						continue
					}
					count++
					if !allowed[fnKey(fn)] {
						fail(fmt.Sprintf("%s calls %s.%s", fnKey(fn), head[0], head[1]))
					}
				}
			}
		}
	case "deferred":
		// every call of head[0] inside the allowed functions is a defer
		target := stripTypeArgs(qualifyKey(head[0], c.Pkg))
		for _, fn := range P.moduleFuncs() {
			if !allowed[fnKey(fn)] {
				continue
			}
			for _, b := range fn.Blocks {
				for _, ins := range b.Instrs {
					cc := callCommonOf(ins)
					if cc == nil {
						continue
					}
					if callee := cc.StaticCallee(); callee != nil && fnKey(callee) == target {
						count++
						if _, isDefer := ins.(*ssa.Defer); !isDefer {
							fail(fmt.Sprintf("%s calls %s outside a defer", fnKey(fn), target))
						}
					}
				}
			}
		}
		if count == 0 {
			res.ok = false
			res.detail = "no call of " + target + " found"
		}
	case "no-global-stores":
		for _, fn := range P.moduleFuncs() {
			if fn.Name() == "init" || strings.HasPrefix(fn.Name(), "init#") {
				continue
			}
			for _, b := range fn.Blocks {
				for _, ins := range b.Instrs {
					if s, ok := ins.(*ssa.Store); ok {
						if g, ok := s.Addr.(*ssa.Global); ok {
							fail(fmt.Sprintf("%s stores to global %s", fnKey(fn), g.Name()))
						}
					}
				}
			}
			count++
		}
	case "field-stores":
		// stores to field head[0] (Type.field) only in the allowed functions
		for _, fn := range P.moduleFuncs() {
			for _, b := range fn.Blocks {
				for _, ins := range b.Instrs {
					s, ok := ins.(*ssa.Store)
					if !ok {
						continue
					}
					fa, ok := s.Addr.(*ssa.FieldAddr)
					if !ok {
						continue
					}
					pt := fa.X.Type().Underlying().(*types.Pointer).Elem()
					f := pt.Underlying().(*types.Struct).Field(fa.Field)
					tn := typeName(pt)
					if strings.HasSuffix(tn+"."+f.Name(), "."+head[0]) || tn+"."+f.Name() == c.Pkg+"."+head[0] {
						count++
						if !allowed[fnKey(fn)] {
							fail(fmt.Sprintf("%s stores to %s", fnKey(fn), head[0]))
						}
					}
				}
			}
		}
	case "go-sites":
		// `go` statements whose (static) target's body calls head[0]; exactly N = head[1] such sites, all in allowed functions
		target := stripTypeArgs(qualifyKey(head[0], c.Pkg))
		for _, fn := range P.moduleFuncs() {
			for _, b := range fn.Blocks {
				for _, ins := range b.Instrs {
					g, ok := ins.(*ssa.Go)
					if !ok {
						continue
					}
					var callee *ssa.Function
					switch v := g.Call.Value.(type) {
					case *ssa.Function:
						callee = v
					case *ssa.MakeClosure:
						callee = v.Fn.(*ssa.Function)
					}
					if callee == nil {
						continue
					}
					if fnKey(callee) == target || fnCalls(callee, target) {
						count++
						if !allowed[fnKey(fn)] {
							fail(fmt.Sprintf("%s spawns %s", fnKey(fn), target))
						}
					}
				}
			}
		}
		if len(head) > 1 {
			var want int
			fmt.Sscan(head[1], &want)
			if count != want {
				res.ok = false
				res.detail = fmt.Sprintf("expected %d spawn sites, found %d; ", want, count)
			}
		}
	default:
		res.ok = false
		res.detail = "unknown census rule " + c.Rule
		return res
	}
	res.detail += fmt.Sprintf("%d matching sites examined", count)
	if !res.ok && len(res.sites) > 0 {
		res.detail += "; violations: " + strings.Join(res.sites, "; ")
	}
	return res
}

func fnCalls(fn *ssa.Function, target string) bool {
	for _, b := range fn.Blocks {
		for _, ins := range b.Instrs {
			if cc := callCommonOf(ins); cc != nil {
				if callee := cc.StaticCallee(); callee != nil && fnKey(callee) == target {
					return true
				}
			}
		}
	}
	return false
}

func callCommonOf(ins ssa.Instruction) *ssa.CallCommon {
	switch x := ins.(type) {
	case *ssa.Call:
		return x.Common()
	case *ssa.Go:
		return x.Common()
	case *ssa.Defer:
		return x.Common()
	}
	return nil
}
