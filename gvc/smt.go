package main

// Solver portfolio: every query is written to a scratch file and raced on
// z3 4.8.12 (/usr/bin/z3), z3-new 5.1.0 and (for quantifier-light queries)
// cvc5 1.0.x. The first definitive answer (sat/unsat) wins.

import (
	"bytes"
	"context"
	"fmt"
	"os"
	"os/exec"
	"path/filepath"
	"runtime"
	"strings"
	"sync"
	"sync/atomic"
	"syscall"
	"time"
)

type SolveResult struct {
	Status string // unsat | sat | unknown | timeout | error
	Solver string
	Time   float64
	Model  string
	Relaxed bool // Model comes from the quantifier-free relaxation (candidate only)
	Raw    map[string]string // solver -> first lines of output
}

var (
	workDir   string
	queryCtr  int64
	solverSem = make(chan struct{}, 16)
	// statistics
	statMu       sync.Mutex
	statBySolver = map[string]int{}
	statTime     float64
)

func initWork() {
	base := os.Getenv("GVC_WORK")
	if base == "" {
		exe, _ := os.Executable()
		base = filepath.Join(filepath.Dir(filepath.Dir(exe)), ".work")
	}
	workDir = filepath.Join(base, fmt.Sprintf("run-%d", os.Getpid()))
	os.MkdirAll(workDir, 0o755)
}

// acquireSlot takes one of NumCPU machine-wide solver slots (advisory file
// locks shared by every gvc process), so that several checks running at once
// do not oversubscribe the cores and turn 2-second queries into timeouts. The
// solver's own time limit starts only once it holds a slot.
func acquireSlot(cancelled func() bool) (release func()) {
	base := os.Getenv("GVC_WORK")
	if base == "" {
		exe, _ := os.Executable()
		base = filepath.Join(filepath.Dir(filepath.Dir(exe)), ".work")
	}
	dir := filepath.Join(base, "slots")
	if err := os.MkdirAll(dir, 0o755); err != nil {
		return func() {}
	}
	n := runtime.NumCPU()
	if n < 2 {
		n = 2
	}
	start := int(time.Now().UnixNano() % int64(n))
	for {
		for k := 0; k < n; k++ {
			i := (start + k) % n
			f, err := os.OpenFile(filepath.Join(dir, fmt.Sprintf("slot-%02d.lock", i)), os.O_CREATE|os.O_RDWR, 0o644)
			if err != nil {
				return func() {}
			}
			if syscall.Flock(int(f.Fd()), syscall.LOCK_EX|syscall.LOCK_NB) == nil {
				return func() { syscall.Flock(int(f.Fd()), syscall.LOCK_UN); f.Close() }
			}
			f.Close()
		}
		if cancelled() {
			return func() {}
		}
		time.Sleep(15 * time.Millisecond)
	}
}

func cleanupWork() {
	if os.Getenv("GVC_KEEP") != "" {
		return
	}
	if workDir != "" {
		os.RemoveAll(workDir)
	}
}

type solverSpec struct {
	name string
	argv func(file string, timeoutMs int) []string
}

var solvers = []solverSpec{
	{"z3-new-5.1.0", func(f string, t int) []string {
		return []string{"z3-new", fmt.Sprintf("-t:%d", t), f}
	}},
	{"z3-4.8.12", func(f string, t int) []string {
		return []string{"/usr/bin/z3", fmt.Sprintf("-t:%d", t), f}
	}},
	{"cvc5-1.0", func(f string, t int) []string {
		return []string{"cvc5", fmt.Sprintf("--tlimit=%d", t), "--produce-models", f}
	}},
}

// Solve races the portfolio on the query text. wantAll asks every solver to
// finish (thorough agreement pass); otherwise first definitive answer wins.
func Solve(query string, timeout time.Duration, wantModel bool) SolveResult {
	n := atomic.AddInt64(&queryCtr, 1)
	file := filepath.Join(workDir, fmt.Sprintf("q%06d.smt2", n))
	q := query
	if wantModel {
		q += "\n(get-model)\n"
	}
	os.WriteFile(file, []byte(q), 0o644)
	if os.Getenv("GVC_KEEP") == "" {
		defer os.Remove(file)
	}

	hasQuant := strings.Contains(query, "(forall ") || strings.Contains(query, "(exists ")
	ctx, cancel := context.WithCancel(context.Background())
	defer cancel()

	type ans struct {
		solver string
		status string
		out    string
		dur    float64
	}
	ch := make(chan ans, len(solvers))
	started := 0
	for i, sv := range solvers {
		if i == 2 && hasQuant {
			continue // cvc5 returns unknown on the quantified array VCs; skip
		}
		started++
		sv := sv
		go func() {
			solverSem <- struct{}{}
			defer func() { <-solverSem }()
			if ctx.Err() != nil {
				ch <- ans{sv.name, "cancelled", "", 0}
				return
			}
			release := acquireSlot(func() bool { return ctx.Err() != nil })
			defer release()
			if ctx.Err() != nil {
				ch <- ans{sv.name, "cancelled", "", 0}
				return
			}
			t0 := time.Now()
			argv := sv.argv(file, int(timeout/time.Millisecond))
			cctx, ccancel := context.WithTimeout(ctx, timeout+2*time.Second)
			defer ccancel()
			cmd := exec.CommandContext(cctx, argv[0], argv[1:]...)
			var out bytes.Buffer
			cmd.Stdout = &out
			cmd.Stderr = &out
			cmd.Run()
			s := out.String()
			first := strings.TrimSpace(strings.SplitN(s, "\n", 2)[0])
			st := "unknown"
			switch {
			case first == "unsat":
				st = "unsat"
			case first == "sat":
				st = "sat"
			case first == "timeout" || strings.Contains(first, "interrupted") || strings.Contains(first, "time limit"):
				st = "timeout"
			case first == "unknown":
				st = "unknown"
			case ctx.Err() != nil:
				st = "cancelled"
			case cctx.Err() != nil:
				st = "timeout"
			default:
				st = "error"
			}
			ch <- ans{sv.name, st, s, time.Since(t0).Seconds()}
		}()
	}
	res := SolveResult{Status: "unknown", Raw: map[string]string{}}
	sawTimeout := false
	for i := 0; i < started; i++ {
		a := <-ch
		if a.status != "cancelled" {
			res.Raw[a.solver] = truncate(a.out, 2000)
		}
		if a.status == "unsat" || a.status == "sat" {
			res.Status = a.status
			res.Solver = a.solver
			res.Time = a.dur
			if a.status == "sat" {
				if idx := strings.Index(a.out, "\n"); idx >= 0 {
					res.Model = a.out[idx+1:]
				}
			}
			cancel()
			statMu.Lock()
			statBySolver[a.solver]++
			statTime += a.dur
			statMu.Unlock()
			// drain
			go func(rem int) {
				for j := 0; j < rem; j++ {
					<-ch
				}
			}(started - i - 1)
			return res
		}
		if a.status == "timeout" {
			sawTimeout = true
		}
		if a.dur > res.Time {
			res.Time = a.dur
		}
	}
	if sawTimeout {
		res.Status = "timeout"
	}
	statMu.Lock()
	statTime += res.Time
	statMu.Unlock()
	return res
}

// solveCore runs z3-new on a query whose step assumptions are named vstep_<i>
// and reports whether it is unsat and, if so, whether the (minimized) unsat
// core uses one of them.
func solveCore(query string, timeout time.Duration) (unsat bool, usesStep bool) {
	n := atomic.AddInt64(&queryCtr, 1)
	file := filepath.Join(workDir, fmt.Sprintf("q%06d.smt2", n))
	os.WriteFile(file, []byte("(set-option :produce-unsat-cores true)\n(set-option :smt.core.minimize true)\n"+query+"(get-unsat-core)\n"), 0o644)
	if os.Getenv("GVC_KEEP") == "" {
		defer os.Remove(file)
	}
	solverSem <- struct{}{}
	defer func() { <-solverSem }()
	release := acquireSlot(func() bool { return false })
	defer release()
	ctx, cancel := context.WithTimeout(context.Background(), timeout+2*time.Second)
	defer cancel()
	argv := solvers[0].argv(file, int(timeout/time.Millisecond))
	cmd := exec.CommandContext(ctx, argv[0], argv[1:]...)
	var out bytes.Buffer
	cmd.Stdout = &out
	cmd.Stderr = &out
	cmd.Run()
	lines := strings.SplitN(out.String(), "\n", 2)
	if strings.TrimSpace(lines[0]) != "unsat" {
		return false, false
	}
	return true, len(lines) > 1 && strings.Contains(lines[1], "vstep_")
}

func truncate(s string, n int) string {
	if len(s) > n {
		return s[:n] + "…"
	}
	return s
}

const prelude = `(set-option :produce-models true)
(set-logic ALL)
(declare-sort Str 0)
(declare-sort F64 0)
(declare-datatypes ((Slice 0)) (((mkslice (sptr Int) (soff Int) (slen Int) (scap Int)))))
(declare-datatypes ((Iface 0)) (((mkiface (ityp Int) (ival Int)))))
(declare-fun epoch (Int) Int)
(declare-fun strlen (Str) Int)
(declare-fun strat (Str Int) Int)
(declare-const str.empty Str)
(declare-const f64.zero F64)
(assert (forall ((s Str)) (! (and (>= (strlen s) 0) (<= (strlen s) 1152921504606846976)) :pattern ((strlen s)))))
(assert (forall ((s Str) (i Int)) (! (and (<= 0 (strat s i)) (<= (strat s i) 255)) :pattern ((strat s i)))))
(assert (= (strlen str.empty) 0))
(assert (forall ((s Str)) (! (=> (= (strlen s) 0) (= s str.empty)) :pattern ((strlen s)))))
(define-fun wrap64 ((x Int)) Int (ite (and (<= (- 9223372036854775808) x) (<= x 9223372036854775807)) x (- (mod (+ x 9223372036854775808) 18446744073709551616) 9223372036854775808)))
(define-fun wrap32 ((x Int)) Int (ite (and (<= (- 2147483648) x) (<= x 2147483647)) x (- (mod (+ x 2147483648) 4294967296) 2147483648)))
(define-fun wrapu8 ((x Int)) Int (mod x 256))
(define-fun wrapu32 ((x Int)) Int (mod x 4294967296))
(define-fun wrapu64 ((x Int)) Int (mod x 18446744073709551616))
(define-fun wrap16 ((x Int)) Int (- (mod (+ x 32768) 65536) 32768))
(define-fun wrap8 ((x Int)) Int (- (mod (+ x 128) 256) 128))
(define-fun wrapu16 ((x Int)) Int (mod x 65536))
(define-fun nilslice () Slice (mkslice 0 0 0 0))
(define-fun niliface () Iface (mkiface 0 0))
(define-fun wfslice ((s Slice)) Bool (and (>= (sptr s) 0) (>= (soff s) 0) (>= (slen s) 0) (>= (scap s) (slen s)) (=> (= (sptr s) 0) (and (= (slen s) 0) (= (scap s) 0) (= (soff s) 0)))))
(define-fun wfiface ((x Iface)) Bool (and (>= (ityp x) 0) (=> (= (ityp x) 0) (= (ival x) 0))))
; string built from a byte array window
(declare-fun bstr ((Array Int Int) Int Int) Str)
(assert (forall ((a (Array Int Int)) (o Int) (n Int)) (! (=> (and (>= n 0) (<= n 1152921504606846976)) (= (strlen (bstr a o n)) n)) :pattern ((bstr a o n)))))
(assert (forall ((a (Array Int Int)) (o Int) (n Int) (i Int)) (! (=> (and (<= 0 i) (< i n)) (= (strat (bstr a o n) i) (ite (and (<= 0 (select a (+ o i))) (<= (select a (+ o i)) 255)) (select a (+ o i)) (mod (select a (+ o i)) 256)))) :pattern ((strat (bstr a o n) i)))))
`
