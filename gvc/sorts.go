package main

// Go types -> SMT sorts, declarations, literals. One Ctx per verified function;
// all path queries of that function share its declarations.

import (
	"fmt"
	"go/types"
	"sort"
	"strings"
)

type Term = string

type Ctx struct {
	P        *Prog
	decls    []string
	declared map[string]bool
	axioms   []string // ground/quantified facts that are always true (literals, boxing)
	axiomSet map[string]bool
	lits     map[string]string // string literal -> const name
	structs  map[string]*structInfo
	fresh    int
	typeIDs  map[string]int
	typeByID []types.Type
	boxed    map[string]bool
	sortOK   bool
	sortAlias map[string]string
}

// mapKV: key sort and a per-value-TYPE alias of the value sort. Map contents
// live in heap arrays named by these, so maps of different Go types (which can
// never alias) live in different arrays even when their value sorts coincide.
func (c *Ctx) mapKV(mt *types.Map) (ks, vs string) {
	ks = c.sortOf(mt.Key())
	real := c.sortOf(mt.Elem())
	ek := typeName(types.Unalias(mt.Elem()))
	if it, ok := mt.Elem().Underlying().(*types.Interface); ok && it.NumMethods() == 0 {
		ek = "any"
	}
	alias := "V." + sanitize(ek)
	if b, ok := mt.Elem().Underlying().(*types.Basic); ok && types.Unalias(mt.Elem()) == types.Type(b) {
		return ks, real
	}
	if c.sortAlias == nil {
		c.sortAlias = map[string]string{}
	}
	c.sortAlias[alias] = real
	c.declare(alias, fmt.Sprintf("(define-sort %s () %s)", alias, real))
	return ks, alias
}

// elemSort: like sortOf for slice/array elements, but pointer-like and struct
// element types get a per-type alias sort so that slices of different element
// types (which cannot alias) live in different Mem.* heap arrays.
// byteMem: the heap variable holding the contents of byte arrays. Bytes get a
// memory of their own so that "every element is in 0..255" can be a
// well-formedness fact of that memory.
func (c *Ctx) byteMem() (name, srt string) {
	es := c.elemSort(types.Typ[types.Uint8])
	return "Mem." + sanitize(es), "(Array Int " + arrOf(es) + ")"
}

func (c *Ctx) elemSort(t types.Type) string {
	real := c.sortOf(t)
	if b, isBasic := t.Underlying().(*types.Basic); isBasic && b.Kind() == types.Uint8 {
		alias := "E.byte"
		if c.sortAlias == nil {
			c.sortAlias = map[string]string{}
		}
		c.sortAlias[alias] = real
		c.declare(alias, fmt.Sprintf("(define-sort %s () %s)", alias, real))
		return alias
	}
	if _, isBasic := types.Unalias(t).(*types.Basic); isBasic {
		return real
	}
	if n, ok := types.Unalias(t).(*types.Named); ok {
		if _, isB := n.Underlying().(*types.Basic); isB {
			return real
		}
	}
	ek := typeName(types.Unalias(t))
	if it, ok := t.Underlying().(*types.Interface); ok && it.NumMethods() == 0 {
		ek = "any"
	}
	alias := "E." + sanitize(ek)
	if c.sortAlias == nil {
		c.sortAlias = map[string]string{}
	}
	c.sortAlias[alias] = real
	c.declare(alias, fmt.Sprintf("(define-sort %s () %s)", alias, real))
	return alias
}

func (c *Ctx) realSort(s string) string {
	if r, ok := c.sortAlias[s]; ok {
		return r
	}
	return s
}

type structInfo struct {
	sort   string
	opaque bool
	st     *types.Struct
	fields []string // selector names
	fsorts []string
}

func newCtx(p *Prog) *Ctx {
	return &Ctx{P: p, declared: map[string]bool{}, axiomSet: map[string]bool{}, lits: map[string]string{},
		structs: map[string]*structInfo{}, typeIDs: map[string]int{}, boxed: map[string]bool{}}
}

func (c *Ctx) declare(name, decl string) {
	if c.declared[name] {
		return
	}
	c.declared[name] = true
	c.decls = append(c.decls, decl)
}

func (c *Ctx) axiom(a string) {
	if c.axiomSet[a] {
		return
	}
	c.axiomSet[a] = true
	c.axioms = append(c.axioms, a)
}

func (c *Ctx) freshName(hint string) string {
	c.fresh++
	return fmt.Sprintf("%s!%d", sanitize(hint), c.fresh)
}

func (c *Ctx) freshConst(hint, srt string) Term {
	n := c.freshName(hint)
	c.declare(n, fmt.Sprintf("(declare-const %s %s)", n, srt))
	return n
}

func (c *Ctx) constOf(name, srt string) Term {
	c.declare(name, fmt.Sprintf("(declare-const %s %s)", name, srt))
	return name
}

func sanitize(s string) string {
	var b strings.Builder
	for _, r := range s {
		switch {
		case r >= 'a' && r <= 'z', r >= 'A' && r <= 'Z', r >= '0' && r <= '9', r == '_', r == '.', r == '!', r == '$', r == '@':
			b.WriteRune(r)
		case r == '/' || r == '*' || r == '(' || r == ')' || r == '[' || r == ']' || r == ' ' || r == ',' || r == '{' || r == '}' || r == ';':
			b.WriteByte('_')
		default:
			b.WriteString(fmt.Sprintf("_%x", r))
		}
	}
	if b.Len() == 0 {
		return "x"
	}
	return b.String()
}

func typeName(t types.Type) string {
	return types.TypeString(t, nil)
}

// sortOf maps a Go type to its SMT sort name, declaring datatypes as needed.
func (c *Ctx) sortOf(t types.Type) string {
	switch u := t.(type) {
	case *types.Named:
		if st, ok := u.Underlying().(*types.Struct); ok {
			return c.structSort(u, st)
		}
		return c.sortOf(u.Underlying())
	case *types.Alias:
		return c.sortOf(types.Unalias(u))
	case *types.Basic:
		switch {
		case u.Info()&types.IsBoolean != 0:
			return "Bool"
		case u.Info()&types.IsInteger != 0:
			return "Int"
		case u.Info()&types.IsString != 0:
			return "Str"
		case u.Info()&types.IsFloat != 0:
			return "F64"
		case u.Kind() == types.UnsafePointer:
			return "Int"
		case u.Kind() == types.UntypedNil:
			return "Int"
		}
		return "Int"
	case *types.Pointer, *types.Map, *types.Chan, *types.Signature:
		return "Int"
	case *types.Interface:
		return "Iface"
	case *types.Slice:
		return "Slice"
	case *types.Struct:
		return c.structSort(nil, u)
	case *types.Tuple:
		if u.Len() == 0 {
			return "Int"
		}
		panic(unsupported("tuple sort"))
	case *types.Array:
		panic(unsupported("array value " + typeName(t)))
	case *types.TypeParam:
		panic(unsupported("type parameter"))
	}
	panic(unsupported("type " + typeName(t)))
}

type unsupportedErr struct{ what string }

func unsupported(s string) unsupportedErr { return unsupportedErr{s} }
func (u unsupportedErr) Error() string    { return "unsupported: " + u.what }

func (c *Ctx) structSort(named *types.Named, st *types.Struct) string {
	var key string
	if named != nil {
		key = typeName(named)
	} else {
		key = "anon:" + typeName(st)
	}
	if si, ok := c.structs[key]; ok {
		return si.sort
	}
	if st.NumFields() == 0 {
		c.structs[key] = &structInfo{sort: "Int", opaque: true, st: st}
		return "Int"
	}
	si := &structInfo{st: st}
	c.structs[key] = si
	name := "S." + sanitize(key)
	inModule := named != nil && named.Obj().Pkg() != nil && c.P.inModule(named.Obj().Pkg().Path())
	if named == nil {
		inModule = true
	}
	if named != nil && !inModule && !c.P.structWhitelist[key] {
		si.opaque = true
		si.sort = "O." + sanitize(key)
		c.declare(si.sort, fmt.Sprintf("(declare-sort %s 0)", si.sort))
		return si.sort
	}
	// placeholder to cut recursion through pointers (pointers are Int anyway)
	si.sort = name
	ok := true
	func() {
		defer func() {
			if r := recover(); r != nil {
				if _, is := r.(unsupportedErr); is {
					ok = false
					return
				}
				panic(r)
			}
		}()
		for i := 0; i < st.NumFields(); i++ {
			f := st.Field(i)
			si.fields = append(si.fields, fmt.Sprintf("%s.%s", name, sanitize(f.Name())))
			si.fsorts = append(si.fsorts, c.sortOf(f.Type()))
		}
	}()
	if !ok {
		si.opaque = true
		si.fields, si.fsorts = nil, nil
		si.sort = "O." + sanitize(key)
		c.declare(si.sort, fmt.Sprintf("(declare-sort %s 0)", si.sort))
		return si.sort
	}
	var fs []string
	for i := range si.fields {
		fs = append(fs, fmt.Sprintf("(%s %s)", si.fields[i], si.fsorts[i]))
	}
	c.declare(name, fmt.Sprintf("(declare-datatypes ((%s 0)) (((mk.%s %s))))", name, name, strings.Join(fs, " ")))
	return name
}

func (c *Ctx) structInfoOf(t types.Type) *structInfo {
	c.sortOf(t)
	if n, ok := types.Unalias(t).(*types.Named); ok {
		return c.structs[typeName(n)]
	}
	return c.structs["anon:"+typeName(t.Underlying())]
}

// zero value of a sort
func (c *Ctx) zeroOfSort(srt string) Term {
	srt = c.realSort(srt)
	switch srt {
	case "Int":
		return "0"
	case "Bool":
		return "false"
	case "Str":
		return "str.empty"
	case "Slice":
		return "nilslice"
	case "Iface":
		return "niliface"
	case "F64":
		return "f64.zero"
	}
	if strings.HasPrefix(srt, "S.") {
		for _, si := range c.structs {
			if si.sort == srt && !si.opaque {
				var zs []string
				for _, fs := range si.fsorts {
					zs = append(zs, c.zeroOfSort(fs))
				}
				return fmt.Sprintf("(mk.%s %s)", srt, strings.Join(zs, " "))
			}
		}
	}
	z := "zero." + srt
	c.declare(z, fmt.Sprintf("(declare-const %s %s)", z, srt))
	return z
}

func (c *Ctx) zeroOf(t types.Type) Term { return c.zeroOfSort(c.sortOf(t)) }

// string literal constant with its axioms
func (c *Ctx) strLit(s string) Term {
	if s == "" {
		return "str.empty"
	}
	if n, ok := c.lits[s]; ok {
		return n
	}
	n := fmt.Sprintf("lit.%d", len(c.lits)+1)
	c.lits[s] = n
	c.declare(n, fmt.Sprintf("(declare-const %s Str) ; %q", n, truncate(s, 60)))
	c.axiom(fmt.Sprintf("(= (strlen %s) %d)", n, len(s)))
	lim := len(s)
	if lim > 48 {
		lim = 48
	}
	var parts []string
	for i := 0; i < lim; i++ {
		parts = append(parts, fmt.Sprintf("(= (strat %s %d) %d)", n, i, s[i]))
	}
	if len(parts) == 1 {
		c.axiom(parts[0])
	} else if len(parts) > 1 {
		c.axiom("(and " + strings.Join(parts, " ") + ")")
	}
	return n
}

func (c *Ctx) typeID(t types.Type) int {
	k := typeName(t)
	if id, ok := c.typeIDs[k]; ok {
		return id
	}
	for i, u := range c.typeByID {
		if types.Identical(t, u) {
			c.typeIDs[k] = i + 1
			return i + 1
		}
	}
	id := len(c.typeByID) + 1
	c.typeIDs[k] = id
	c.typeByID = append(c.typeByID, t)
	return id
}

// box/unbox a value of the given sort into the Int payload of an interface
func (c *Ctx) box(srt string, v Term) Term {
	srt = c.realSort(srt)
	switch srt {
	case "Int":
		return v
	}
	c.ensureBox(srt)
	return fmt.Sprintf("(box.%s %s)", srt, v)
}

func (c *Ctx) unbox(srt string, v Term) Term {
	srt = c.realSort(srt)
	switch srt {
	case "Int":
		return v
	}
	c.ensureBox(srt)
	return fmt.Sprintf("(unbox.%s %s)", srt, v)
}

func (c *Ctx) ensureBox(srt string) {
	if c.boxed[srt] {
		return
	}
	c.boxed[srt] = true
	c.declare("box."+srt, fmt.Sprintf("(declare-fun box.%s (%s) Int)", srt, srt))
	c.declare("unbox."+srt, fmt.Sprintf("(declare-fun unbox.%s (Int) %s)", srt, srt))
	c.axiom(fmt.Sprintf("(forall ((x %s)) (! (= (unbox.%s (box.%s x)) x) :pattern ((box.%s x))))", srt, srt, srt, srt))
}

// winOf: the view of array arr shifted by off (slice windows). Element reads go
// through it so that quantified contracts over slices have a usable trigger.
func (c *Ctx) winOf(es string, arr, off Term) Term {
	if off == "0" {
		return arr
	}
	fn := "win." + sanitize(es)
	as := arrOf(es)
	c.declare(fn, fmt.Sprintf("(declare-fun %s (%s Int) %s)", fn, as, as))
	c.axiom(fmt.Sprintf("(forall ((a %s) (o Int) (i Int)) (! (= (select (%s a o) i) (select a (+ o i))) :pattern ((select (%s a o) i))))", as, fn, fn))
	return "(" + fn + " " + arr + " " + off + ")"
}

// arraySort returns "(Array Int <elem>)"
func arrOf(elem string) string { return "(Array Int " + elem + ")" }

func sortedKeys[V any](m map[string]V) []string {
	var ks []string
	for k := range m {
		ks = append(ks, k)
	}
	sort.Strings(ks)
	return ks
}

// integer range of a basic type: lo, hi as decimal strings, and wrap fn
func intRange(t types.Type) (lo, hi, wrap string, ok bool) {
	b, isB := t.Underlying().(*types.Basic)
	if !isB || b.Info()&types.IsInteger == 0 {
		return "", "", "", false
	}
	switch b.Kind() {
	case types.Int, types.Int64, types.UntypedInt:
		return "(- 9223372036854775808)", "9223372036854775807", "wrap64", true
	case types.Int32, types.UntypedRune:
		return "(- 2147483648)", "2147483647", "wrap32", true
	case types.Int16:
		return "(- 32768)", "32767", "wrap16", true
	case types.Int8:
		return "(- 128)", "127", "wrap8", true
	case types.Uint, types.Uint64, types.Uintptr:
		return "0", "18446744073709551615", "wrapu64", true
	case types.Uint32:
		return "0", "4294967295", "wrapu32", true
	case types.Uint16:
		return "0", "65535", "wrapu16", true
	case types.Uint8:
		return "0", "255", "wrapu8", true
	}
	return "", "", "", false
}
