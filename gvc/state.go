package main

import (
	"fmt"
	"go/types"
	"sort"
	"strings"

	"golang.org/x/tools/go/ssa"
)

const (
	lvHeap = iota // heap[idx]
	lvElem        // heap[idx][idx2]   (slice/array memory)
	lvSub         // field of a struct value stored at parent
)

type LValue struct {
	kind     int
	heap     string
	heapSort string
	idx      Term
	idx2     Term
	off      Term // lvElem: window offset (idx2 is relative to it); "" means 0
	parent   *LValue
	fieldIdx int
	si       *structInfo
	elemSort string
	typ      types.Type
	// provenance for lockset / role lookup
	fieldOf   types.Type // struct type when this is a field address
	fieldName string
	base      Term
}

type closureInfo struct {
	fn       *ssa.Function
	bindings []Term
	bindLVs  []*LValue
	bindVals []ssa.Value
}

type iterInfo struct {
	mapTerm Term
	ks, vs  string
	visited Term // (Array K Bool)
	isStr   bool
}

type deferRec struct {
	call *ssa.CallCommon
	args []Term // evaluated at defer time (value + args)
	fval Term
	site ssa.Instruction
	fr   *frame
}

type State struct {
	appendCase int // 0: undetermined (ite), 1: in place, 2: reallocated (forked paths)
	hints      []Term // sound strengthenings tried when the plain query is not decided (dense allocation)
	fx    *FnExec
	vals  map[ssa.Value]Term
	tups  map[ssa.Value][]Term
	lvs   map[ssa.Value]*LValue
	heap  map[string]Term
	pc    []Term
	alloc Term
	clos  map[Term]*closureInfo
	iters map[ssa.Value]*iterInfo
	path  []string
	dead  bool
	// array pointer info: value -> (len, elem sort)
	arrs map[Term]arrInfo
	// entry snapshot of heap for old()
	entryHeap map[string]Term
	loopIters map[string]*iterInfo // "loopN" -> iterator for visited()
	callDepth int
	deferStack []*deferRec
	dargs      map[*deferRec]*callArgs
	decrVals   map[string]Term
	pointeeLoop bool                // a loop on this path wrote objects through pointers of unknown type
	pointees   []Term               // objects written through pointers of unknown type (pointee(p) modifies targets)
	names      map[string]ssa.Value // "<fn>|<source name>" -> value last referenced under that name on this path
	retSite    ssa.Instruction
	callRes    map[string][]Term // results of calls on this path, by site name ("call.Recv#1")
	lockSnap   map[string]map[string]Term // monitor key+owner -> heap at the last Lock
	lastLock   map[string]Term            // heap right after the most recent monitor Lock
	unlockSnap map[string]map[string]Term // monitor key+owner -> heap at this thread's last Unlock
	loopFrames []string                   // "loopOrd|heapvar": automatic frame invariants in force
	joins      []*pendingJoin             // goroutines spawned with a WaitGroup debt, not yet joined
}

type pendingJoin struct {
	wg   Term
	tgt  callTarget
	sig  *types.Signature
	args *callArgs
}

type arrInfo struct {
	n     int64
	esort string
	etyp  types.Type
}

func (st *State) clone() *State {
	n := &State{fx: st.fx, alloc: st.alloc, dead: st.dead, entryHeap: st.entryHeap, callDepth: st.callDepth,
		deferStack: st.deferStack, dargs: st.dargs, decrVals: st.decrVals, names: st.names, pointees: st.pointees, pointeeLoop: st.pointeeLoop, retSite: st.retSite, callRes: st.callRes, lockSnap: st.lockSnap, lastLock: st.lastLock, unlockSnap: st.unlockSnap, loopFrames: st.loopFrames, joins: st.joins}
	n.vals = make(map[ssa.Value]Term, len(st.vals))
	for k, v := range st.vals {
		n.vals[k] = v
	}
	n.tups = make(map[ssa.Value][]Term, len(st.tups))
	for k, v := range st.tups {
		n.tups[k] = v
	}
	n.lvs = make(map[ssa.Value]*LValue, len(st.lvs))
	for k, v := range st.lvs {
		n.lvs[k] = v
	}
	n.heap = make(map[string]Term, len(st.heap))
	for k, v := range st.heap {
		n.heap[k] = v
	}
	n.pc = append([]Term(nil), st.pc...)
	n.clos = make(map[Term]*closureInfo, len(st.clos))
	for k, v := range st.clos {
		n.clos[k] = v
	}
	n.iters = make(map[ssa.Value]*iterInfo, len(st.iters))
	for k, v := range st.iters {
		n.iters[k] = v
	}
	n.arrs = make(map[Term]arrInfo, len(st.arrs))
	for k, v := range st.arrs {
		n.arrs[k] = v
	}
	n.loopIters = make(map[string]*iterInfo, len(st.loopIters))
	for k, v := range st.loopIters {
		n.loopIters[k] = v
	}
	n.path = append([]string(nil), st.path...)
	n.hints = append([]Term(nil), st.hints...)
	return n
}

func (st *State) assume(t Term) {
	if t == "true" || t == "" {
		return
	}
	st.pc = append(st.pc, t)
}

// heapInit returns the initial (function-entry) version of a heap variable.
func (st *State) heapInit(name, srt string) Term {
	n := sanitize(name) + "@0"
	if !st.fx.declared[n] {
		st.fx.declare(n, fmt.Sprintf("(declare-const %s %s)", n, srt))
		st.fx.heapSorts[name] = srt
		if f := st.fx.heapWF(name, srt, n, "alloc@0"); f != "" {
			st.fx.declare("alloc@0", "(declare-const alloc@0 Int)")
			st.fx.axiom(f)
			if !st.fx.declared["epoch@0"] {
				st.fx.declared["epoch@0"] = true
				st.fx.axiom("(forall ((q.w Int)) (! (=> (<= q.w alloc@0) (<= (epoch q.w) alloc@0)) :pattern ((epoch q.w))))")
			}
		}
	}
	st.fx.heapSorts[name] = srt
	return n
}

// heapWF: every reference stored in the heap variable denotes an object that
// exists (was allocated no later than `bound`). True of every real heap.
func (fx *FnExec) heapWF(name, srt, arr, bound string) Term {
	kindOfSort := func(es string) string {
		real := fx.realSort(es)
		if real == es {
			return ""
		}
		switch real {
		case "Int":
			return "ref"
		case "Slice":
			return "slice"
		case "Iface":
			return "iface"
		}
		return ""
	}
	// References stored in an object allocated up to `bound` denote objects
	// allocated up to `bound`. The contents of a location that is NOT yet
	// allocated stand for whatever a later allocation (by a callee, a loop
	// iteration) puts there: those are bounded by epoch(w), the watermark when
	// w's allocating step finished (see bumpAlloc).
	bnd := func(kind, v string) string {
		// (a negative reference -(b*1024+k) is the address of field k of object b)
		in := func(x, b string) string {
			return "(and (<= " + x + " " + b + ") (> " + x + " (- (* (+ " + b + " 1) 1024))))"
		}
		le := func(x string) string {
			return "(or " + in(x, bound) + " " + in(x, "(epoch q.w)") + ")"
		}
		switch kind {
		case "ref":
			return le(v)
		case "slice":
			return le("(sptr " + v + ")")
		case "iface":
			return le("(ival " + v + ")")
		}
		return ""
	}
	switch {
	case strings.HasPrefix(name, "H."):
		k := heapFieldKinds[name]
		if k == "" {
			return ""
		}
		return "(forall ((q.w Int)) (! " + bnd(k, "(select "+arr+" q.w)") + " :pattern ((select " + arr + " q.w))))"
	case strings.HasPrefix(name, "Mem."):
		es := arrayElemSort(arrayElemSort(srt))
		if es == "E.byte" {
			// a byte array holds bytes
			return "(forall ((q.w Int) (q.x Int)) (! (and (<= 0 (select (select " + arr + " q.w) q.x)) (<= (select (select " + arr + " q.w) q.x) 255)) :pattern ((select (select " + arr + " q.w) q.x))))"
		}
		k := kindOfSort(es)
		if k == "" {
			return ""
		}
		return "(forall ((q.w Int) (q.x Int)) (! " + bnd(k, "(select (select "+arr+" q.w) q.x)") + " :pattern ((select (select " + arr + " q.w) q.x))))"
	case strings.HasPrefix(name, "MapVal."):
		inner := arrayElemSort(srt)
		ks := arrayIndexSort(inner)
		k := kindOfSort(arrayElemSort(inner))
		if k == "" {
			return ""
		}
		return "(forall ((q.w Int) (q.x " + ks + ")) (! " + bnd(k, "(select (select "+arr+" q.w) q.x)") + " :pattern ((select (select " + arr + " q.w) q.x))))"
	}
	return ""
}

func (st *State) heapGet(name, srt string) Term {
	if t, ok := st.heap[name]; ok {
		return t
	}
	t := st.heapInit(name, srt)
	st.heap[name] = t
	// objects written through pointers of unknown type before this heap
	// variable was first touched
	if st.pointeeLoop && realRefHeap(name, srt) {
		// a loop already passed may have written pre-existing objects here
		nv := st.fx.freshConst(name+"@ploop", srt)
		e := st.fx.entryAlloc
		st.assume(fmt.Sprintf("(forall ((q.r Int)) (! (=> (or (> q.r %s) (<= q.r (- (* (+ %s 1) 1024)))) (= (select %s q.r) (select %s q.r))) :pattern ((select %s q.r))))", e, e, nv, t, nv))
		st.heap[name] = nv
		// every such write was shown to stay inside the function's frame
		// (obligation pointee-in-frame), so this variable kept its frame too
		if fal := st.fx.topFrameAllowed(st); fal != nil {
			if post, ok := st.fx.frameFormula(st, name, nv, fal, st.entryHeap, e); ok {
				st.assume(post)
			}
		}
	}
	for _, idx := range st.pointees {
		st.havocAt(name, idx)
	}
	return st.heap[name]
}

// havocAt gives location idx of a (real, reference-indexed) heap variable an
// arbitrary value.
func (st *State) havocAt(name string, idx Term) {
	if strings.HasPrefix(name, "ghost.") || strings.HasPrefix(name, "gv.") {
		return
	}
	srt := st.fx.heapSorts[name]
	if !strings.HasPrefix(srt, "(Array Int ") {
		return
	}
	es := arrayElemSort(srt)
	st.heap[name] = "(store " + st.heap[name] + " " + idx + " " + st.fx.freshConst("mod.pointee", es) + ")"
}

func (st *State) heapSet(name, srt string, t Term) {
	st.fx.heapSorts[name] = srt
	if _, ok := st.heap[name]; !ok {
		st.heapInit(name, srt)
	}
	// terms are strings (no sharing): name large ones to avoid blow-up
	if len(t) > 240 {
		c := st.fx.freshConst(name+"@v", srt)
		st.pc = append(st.pc, "(= "+c+" "+t+")")
		t = c
	}
	st.heap[name] = t
}

// nameIfLarge binds a large value term to a fresh constant.
func (st *State) nameIfLarge(t Term, srt string) Term {
	if len(t) <= 320 {
		return t
	}
	c := st.fx.freshConst("v", srt)
	st.pc = append(st.pc, "(= "+c+" "+t+")")
	return c
}

// bumpAlloc moves the allocation watermark to na (>= the current one): every
// object allocated by the step just taken holds references below na.
func (st *State) bumpAlloc(na Term) {
	st.assume("(>= " + na + " " + st.alloc + ")")
	st.assume("(forall ((q.w Int)) (! (=> (and (> q.w " + st.alloc + ") (<= q.w " + na + ")) (<= (epoch q.w) " + na + ")) :pattern ((epoch q.w))))")
	st.alloc = na
}

func (st *State) snapshotHeap() map[string]Term {
	m := make(map[string]Term, len(st.heap))
	for k, v := range st.heap {
		m[k] = v
	}
	return m
}

// fresh allocation reference, distinct from everything allocated before
func (st *State) freshRef(hint string) Term {
	r := st.fx.freshConst(hint, "Int")
	st.assume("(> " + r + " " + st.alloc + ")")
	// Addresses are unobservable except for equality, so every execution has a
	// renaming in which an allocation takes the next unused address (no address
	// between two watermarks is a phantom nobody allocated). Kept as a hint:
	// added only when the plain query is not decided.
	st.hints = append(st.hints, "(= "+r+" (+ "+st.alloc+" 1))")
	st.assume("(<= (epoch " + r + ") " + r + ")")
	st.alloc = r
	return r
}

func (st *State) loadLV(lv *LValue) Term {
	switch lv.kind {
	case lvHeap:
		return "(select " + st.heapGet(lv.heap, lv.heapSort) + " " + lv.idx + ")"
	case lvElem:
		arr := "(select " + st.heapGet(lv.heap, lv.heapSort) + " " + lv.idx + ")"
		if lv.off != "" && lv.off != "0" {
			arr = st.fx.winOf(lv.elemSort, arr, lv.off)
		}
		return "(select " + arr + " " + lv.idx2 + ")"
	case lvSub:
		return "(" + lv.si.fields[lv.fieldIdx] + " " + st.loadLV(lv.parent) + ")"
	}
	panic("bad lvalue")
}

func (st *State) storeLV(lv *LValue, v Term) {
	switch lv.kind {
	case lvHeap:
		h := st.heapGet(lv.heap, lv.heapSort)
		st.heapSet(lv.heap, lv.heapSort, "(store "+h+" "+lv.idx+" "+v+")")
	case lvElem:
		h := st.heapGet(lv.heap, lv.heapSort)
		abs := lv.idx2
		if lv.off != "" && lv.off != "0" {
			abs = "(+ " + lv.off + " " + lv.idx2 + ")"
		}
		st.heapSet(lv.heap, lv.heapSort, "(store "+h+" "+lv.idx+" (store (select "+h+" "+lv.idx+") "+abs+" "+v+"))")
	case lvSub:
		old := st.loadLV(lv.parent)
		var parts []string
		for i, f := range lv.si.fields {
			if i == lv.fieldIdx {
				parts = append(parts, v)
			} else {
				parts = append(parts, "("+f+" "+old+")")
			}
		}
		st.storeLV(lv.parent, "(mk."+lv.si.sort+" "+strings.Join(parts, " ")+")")
	}
}

// assumeWF adds the type invariant of a fresh value of Go type t.
func (st *State) assumeWF(v Term, t types.Type) {
	if t == nil {
		return
	}
	switch u := t.Underlying().(type) {
	case *types.Basic:
		if lo, hi, _, ok := intRange(t); ok {
			st.assume("(and (<= " + lo + " " + v + ") (<= " + v + " " + hi + "))")
		}
	case *types.Slice:
		st.assume("(wfslice " + v + ")")
		st.assume("(<= (sptr " + v + ") " + st.alloc + ")")
		if sl, ok := t.Underlying().(*types.Slice); ok {
			// a slice's backing store fits in the address space
			st.assume(fmt.Sprintf("(<= (* (+ (soff %s) (scap %s)) %d) 281474976710656)", v, v, elemSize(sl.Elem())))
		}
	case *types.Interface:
		st.assume("(wfiface " + v + ")")
	case *types.Chan:
		st.assume("(<= " + v + " " + st.alloc + ")")
		// channels of different element types are different objects
		st.fx.declare("chan.type", "(declare-const chan.type (Array Int Int))")
		st.assume(fmt.Sprintf("(or (= %s 0) (= (select chan.type %s) %d))", v, v, st.fx.typeID(u.Elem())))
	case *types.Pointer, *types.Map:
		st.assume("(<= " + v + " " + st.alloc + ")")
		_ = u
	case *types.Signature:
		st.assume("(<= " + v + " " + st.alloc + ")")
		st.assume("(>= " + v + " 0)")
	case *types.Struct:
		si := st.fx.structInfoOf(t)
		if si != nil && !si.opaque {
			for i := 0; i < u.NumFields(); i++ {
				st.assumeWF("("+si.fields[i]+" "+v+")", u.Field(i).Type())
			}
		}
	}
}

type Obligation struct {
	Name     string
	Kind     string
	Fn       string
	Props    []string
	Assumes  []Term
	Hints    []Term // sound strengthenings (see State.hints)
	Goal     Term
	Path     string
	Src      string
	Result   SolveResult
	Trivial  bool
	Instance int
	Inputs   map[string]string // model-relevant input names -> term (for replay)
	Invert   bool              // vacuity guard: passes unless the assumptions are contradictory
	fx       *FnExec           // the function run that produced the obligation (replay)
	Results  []Term            // result terms at the return site (postconditions; replay)
	nameSteps bool             // build the query with the step assumptions named (unsat-core check)
	PreLen   int               // vacuity step: Assumes[:PreLen] is the path condition before the assumed step (0: none)
}

func (st *State) pathString() string {
	return strings.Join(st.path, ">")
}

func sortedTermKeys(m map[string]Term) []string {
	var ks []string
	for k := range m {
		ks = append(ks, k)
	}
	sort.Strings(ks)
	return ks
}
