package main

import (
	"flag"
	"fmt"
	"os"
	"os/exec"
	"path/filepath"
	"sort"
	"strings"
	"time"
)

func verifRoot() string {
	if r := os.Getenv("GVC_ROOT"); r != "" {
		return r
	}
	exe, err := os.Executable()
	if err == nil {
		d := filepath.Dir(filepath.Dir(exe))
		if _, err := os.Stat(filepath.Join(d, "spec")); err == nil {
			return d
		}
	}
	return "/verif"
}

func main() {
	if len(os.Args) < 2 {
		fmt.Fprintln(os.Stderr, "usage: gvc <check|vf|replay|list|selftest> ...")
		os.Exit(2)
	}
	initWork()
	code := 0
	func() {
		defer cleanupWork()
		switch os.Args[1] {
		case "vf":
			code = cmdVF(os.Args[2:])
		case "check":
			code = cmdCheck(os.Args[2:])
		case "replay":
			code = cmdReplay(os.Args[2:])
		case "list":
			code = cmdList(os.Args[2:])
		case "selftest":
			code = cmdSelftest(os.Args[2:])
		default:
			fmt.Fprintln(os.Stderr, "unknown command", os.Args[1])
			code = 2
		}
	}()
	os.Exit(code)
}

func loadAll(repo string, overlay map[string][]byte) (*Prog, error) {
	P, err := loadProg(repo, overlay)
	if err != nil {
		return nil, err
	}
	specOverlay = overlay
	sp, err := loadAllSpecs(repo, filepath.Join(verifRoot(), "spec"), P.ModPath)
	if err != nil {
		return nil, err
	}
	P.Specs = sp
	for _, t := range sp.Transparent {
		P.structWhitelist[t] = true
	}
	registerMonitorPures(sp)
	expandMonitorModifies(sp)
	return P, nil
}

// registerMonitorPures makes <Type>_<field>_inv(owner) available in contracts.
func registerMonitorPures(sp *Specs) {
	for _, m := range sp.Monitors {
		i := strings.LastIndex(m.TypeName, ".")
		name := m.TypeName[i+1:] + "_" + m.Field + "_inv"
		var body Expr = &EIdent{"true"}
		for _, c := range m.Invariants {
			body = &EBinary{"&&", body, c.Expr}
		}
		sp.Pures[name] = &PureDecl{Name: name, Params: []QVar{{m.Owner, "*" + m.TypeName}}, Ret: "Bool", Body: body}
	}
}

// vf: verify the named functions (debug driver)
func cmdVF(args []string) int {
	fs := flag.NewFlagSet("vf", flag.ExitOnError)
	repo := fs.String("repo", "/repo", "repository")
	timeout := fs.Duration("timeout", 10*time.Second, "per-query timeout")
	verbose := fs.Bool("v", false, "verbose")
	dump := fs.String("dump", "", "dump the query of the obligation whose name contains this string")
	mutant := fs.String("mutant", "", "apply this patch through the overlay")
	dumpPath := fs.String("dumppath", "", "with -dump: only instances whose path contains this string")
	fs.Parse(args)
	var ov map[string][]byte
	if *mutant != "" {
		var err error
		ov, err = overlayFromPatch(*repo, *mutant)
		if err != nil {
			fmt.Fprintln(os.Stderr, err)
			return 2
		}
	}
	P, err := loadAll(*repo, ov)
	if err != nil {
		fmt.Fprintln(os.Stderr, "load:", err)
		return 2
	}
	bad := 0
	for _, pat := range fs.Args() {
		if strings.HasPrefix(pat, "lemma:") {
			for _, lm := range P.Specs.Lemmas {
				if lm.Name == strings.TrimPrefix(pat, "lemma:") {
					rep := verifyLemma(P, lm)
					solveReport(rep, solveOpts{timeout: *timeout, models: true})
					fmt.Printf("== %s: %d obligations\n", rep.Short, len(rep.Obls))
					if rep.Error != "" {
						fmt.Println("   ERROR:", rep.Error)
						bad++
					}
					agg := aggregate(rep.Obls)
					for _, name := range sortedKeys(agg) {
						a := agg[name]
						if a.status != "unsat" {
							bad++
						}
						fmt.Printf("   %-8s %s  (%d inst, %.2fs, %s)\n", a.status, name, a.n, a.time, a.solver)
					}
				}
			}
			continue
		}
		var keys []string
		for k := range P.Funcs {
			if strings.HasSuffix(k, pat) || k == pat {
				keys = append(keys, k)
			}
		}
		sort.Strings(keys)
		if len(keys) == 0 {
			fmt.Println("no function matches", pat)
			bad++
			continue
		}
		for _, k := range keys {
			fn := P.Funcs[k]
			var fc *FuncContract
			if cs := P.Specs.Funcs[k]; len(cs) > 0 {
				fc = cs[0]
			}
			t0 := time.Now()
			rep := verifyFunc(P, fn, fc)
			gen := time.Since(t0)
			if os.Getenv("GVC_STATS") != "" {
				tot, mx := 0, 0
				for _, o := range rep.Obls {
					n := len(o.Goal)
					for _, a := range o.Assumes {
						n += len(a)
					}
					tot += n
					if n > mx {
						mx = n
					}
				}
				fmt.Printf("   stats: %d obligations, %d paths, total assumption bytes %d, max %d, decls %d\n", len(rep.Obls), rep.Paths, tot, mx, len(rep.fx.decls))
				for i, o := range rep.Obls {
					if i%20000 == 0 {
						fmt.Println("     ", o.Name, o.Path)
					}
				}
				if os.Getenv("GVC_STATS") == "only" {
					continue
				}
			}
			solveReport(rep, solveOpts{timeout: *timeout, models: true})
			fmt.Printf("== %s: %d obligations, %d paths, gen %.2fs, total %.2fs\n", rep.Short, len(rep.Obls), rep.Paths, gen.Seconds(), time.Since(t0).Seconds())
			if rep.Error != "" {
				fmt.Println("   ERROR:", rep.Error)
				bad++
			}
			if len(rep.Inlined) > 0 {
				fmt.Println("   inlined:", rep.Inlined)
			}
			if len(rep.Havocked) > 0 {
				fmt.Println("   havoc calls:", rep.Havocked)
			}
			if len(rep.Assumed) > 0 {
				fmt.Println("   assumed contracts:", rep.Assumed)
			}
			agg := aggregate(rep.Obls)
			for _, name := range sortedKeys(agg) {
				a := agg[name]
				if a.status != "unsat" {
					bad++
				}
				if *verbose || a.status != "unsat" {
					fmt.Printf("   %-8s %s  (%d inst, %.2fs, %s)\n", a.status, name, a.n, a.time, a.solver)
					if a.status == "error" && a.witness != nil {
						for sv, out := range a.witness.Result.Raw {
							fmt.Println("      solver error:", sv, truncate(out, 300))
						}
					}
					if a.status == "sat" && a.witness != nil {
						fmt.Println("      path:", a.witness.Path)
						fmt.Println("      goal:", truncate(a.witness.Goal, 400))
						if *verbose {
							fmt.Println("      model:", truncate(a.witness.Result.Model, 1500))
						}
					}
				}
			}
			if *verbose {
				for _, o := range rep.Obls {
					if o.Result.Status != "unsat" {
						fmt.Printf("   FAIL %s [%s] path %s\n", o.Name, o.Result.Status, o.Path)
					}
				}
			}
			if *dump != "" {
				extra := rep.fx.finalizeAxioms()
				var pick *Obligation
				for _, o := range rep.Obls {
					if strings.Contains(o.Name, *dump) && strings.Contains(o.Path, *dumpPath) {
						if *dumpPath != "" {
							fmt.Println(";; instance", o.Path, o.Result.Status)
						}
						if pick == nil || (pick.Result.Status == "unsat" && o.Result.Status != "unsat") {
							pick = o
						}
					}
				}
				if pick != nil {
					fmt.Println(";;;;", pick.Name, pick.Path, pick.Result.Status)
					fmt.Println(rep.fx.buildQuery(pick, extra))
				}
			}
		}
	}
	if bad > 0 {
		return 1
	}
	return 0
}

type aggObl struct {
	maxTime float64 // slowest single instance (s)
	status  string
	n       int
	time    float64
	solver  string
	witness *Obligation
	props   []string
	kind    string
}

// aggregate combines the path instances of each named obligation.
func aggregate(obls []*Obligation) map[string]*aggObl {
	m := map[string]*aggObl{}
	rank := map[string]int{"unsat": 0, "unknown": 1, "timeout": 1, "error": 4, "sat": 3, "": 1}
	for _, o := range obls {
		a := m[o.Name]
		if a == nil {
			a = &aggObl{status: "unsat", props: o.Props, kind: o.Kind}
			m[o.Name] = a
		}
		a.n++
		a.time += o.Result.Time
		if o.Result.Time > a.maxTime && !o.Invert {
			a.maxTime = o.Result.Time
		}
		st := o.Result.Status
		if st == "" {
			st = "unknown"
		}
		if rank[st] > rank[a.status] {
			a.status = st
			a.witness = o
		}
		if o.Result.Solver != "" {
			a.solver = o.Result.Solver
		}
	}
	return m
}

func cmdList(args []string) int     { fmt.Println("not implemented"); return 0 }


// expandMonitorModifies rewrites `modifies monitor(x)` into the guard list of
// the monitor whose owner type x has (matched by owner name -> argument).
func expandMonitorModifies(sp *Specs) {
	expand := func(fc *FuncContract) {
		var out []Expr
		for _, m := range fc.Modifies {
			c, ok := m.(*ECall)
			if !ok || c.Fn != "monitor" || len(c.Args) != 2 {
				out = append(out, m)
				continue
			}
			// monitor(TypeName, expr)
			tn := c.Args[0].String()
			for _, mon := range sp.Monitors {
				i := strings.LastIndex(mon.TypeName, ".")
				if mon.TypeName[i+1:] != tn {
					continue
				}
				for _, g := range splitTop(strings.Join(mon.Guards, " ")) {
					e, err := ParseExpr(g)
					if err != nil {
						continue
					}
					out = append(out, substIdent(e, mon.Owner, c.Args[1]))
				}
			}
		}
		fc.Modifies = out
	}
	for _, cs := range sp.Funcs {
		for _, fc := range cs {
			expand(fc)
		}
	}
	for _, fc := range sp.Roles {
		expand(fc)
	}
}

func substIdent(e Expr, name string, by Expr) Expr {
	switch x := e.(type) {
	case *EIdent:
		if x.Name == name {
			return by
		}
		return x
	case *EUnary:
		return &EUnary{x.Op, substIdent(x.X, name, by)}
	case *EBinary:
		return &EBinary{x.Op, substIdent(x.X, name, by), substIdent(x.Y, name, by)}
	case *ECall:
		n := &ECall{Fn: x.Fn}
		for _, a := range x.Args {
			n.Args = append(n.Args, substIdent(a, name, by))
		}
		return n
	case *EField:
		return &EField{substIdent(x.X, name, by), x.Name}
	case *EIndex:
		return &EIndex{substIdent(x.X, name, by), substIdent(x.I, name, by)}
	case *ECond:
		return &ECond{substIdent(x.C, name, by), substIdent(x.A, name, by), substIdent(x.B, name, by)}
	}
	return e
}


// selftest: the must-fail corpus. Every mutants/<prop>/<name>.patch must make
// `check -p <prop>` report a violation; noalarm-*.patch must stay green.
func cmdSelftest(args []string) int {
	fs := flag.NewFlagSet("selftest", flag.ExitOnError)
	prop := fs.String("p", "", "only this property")
	par := fs.Int("j", 4, "parallel checks")
	dir := fs.String("dir", "", "mutant directory (default <root>/mutants)")
	fs.Parse(args)
	root := verifRoot()
	mdir := *dir
	if mdir == "" {
		mdir = filepath.Join(root, "mutants")
	}
	type job struct{ prop, file string }
	var jobs []job
	props, _ := loadProps()
	ents, _ := os.ReadDir(mdir)
	for _, e := range ents {
		if !e.IsDir() || (*prop != "" && e.Name() != *prop) {
			continue
		}
		if _, ok := props[e.Name()]; !ok {
			continue
		}
		fs2, _ := os.ReadDir(filepath.Join(mdir, e.Name()))
		for _, f := range fs2 {
			if strings.HasSuffix(f.Name(), ".patch") || strings.HasSuffix(f.Name(), ".diff") {
				jobs = append(jobs, job{e.Name(), filepath.Join(mdir, e.Name(), f.Name())})
			}
		}
	}
	exe, _ := os.Executable()
	type res struct {
		j    job
		out  string
		code int
	}
	results := make([]res, len(jobs))
	sem := make(chan struct{}, *par)
	done := make(chan int, len(jobs))
	for i, j := range jobs {
		i, j := i, j
		go func() {
			sem <- struct{}{}
			defer func() { <-sem; done <- i }()
			cmd := exec.Command(exe, "check", "-p", j.prop, "-mutant", j.file, "-no-evidence")
			out, err := cmd.CombinedOutput()
			code := 0
			if err != nil {
				if ee, ok := err.(*exec.ExitError); ok {
					code = ee.ExitCode()
				} else {
					code = 99
				}
			}
			results[i] = res{j, string(out), code}
		}()
	}
	for range jobs {
		<-done
	}
	bad := 0
	for _, r := range results {
		name := filepath.Base(r.j.file)
		wantAlarm := !strings.HasPrefix(name, "noalarm-")
		gotAlarm := r.code == 1 && strings.Contains(r.out, "VIOLATION")
		status := "ok"
		if r.code != 0 && r.code != 1 {
			status = "ERROR"
			bad++
		} else if wantAlarm != gotAlarm {
			status = "MISMATCH"
			bad++
		}
		var obl []string
		for _, l := range strings.Split(r.out, "\n") {
			if strings.HasPrefix(l, "VIOLATION") {
				p := l[strings.Index(l, "replay=")+7:]
				p = strings.TrimSuffix(strings.Fields(p)[0], ".json")
				obl = append(obl, filepath.Base(p))
			}
		}
		if len(obl) > 3 {
			obl = append(obl[:3], fmt.Sprintf("...+%d", len(obl)-3))
		}
		fmt.Printf("%-8s %s %-45s alarm=%v %s\n", status, r.j.prop, name, gotAlarm, strings.Join(obl, " "))
		if status == "ERROR" {
			fmt.Println(truncate(r.out, 600))
		}
	}
	fmt.Printf("selftest: %d mutants, %d problems\n", len(jobs), bad)
	if bad > 0 {
		return 1
	}
	return 0
}
