package main

// Contract files: `//@` comment lines in /repo/**/verif_contracts.go (guarded by
// the build tag `verif`, comment-only) and in /verif/spec/**/*.gvc (assumed
// contracts on dependencies, ghost/spec declarations).

import (
	"bufio"
	"bytes"
	"io"
	"fmt"
	"os"
	"path/filepath"
	"regexp"
	"sort"
	"strconv"
	"strings"
)

type Clause struct {
	Label string   // optional label (after ':' in brackets) used in obligation names
	Props []string // property tags
	Expr  Expr
	Src   string
	File  string
	Line  int
	By    string // axiom[by:L]: consequence (by induction) of lemma L; withheld while L itself is checked
}

type LoopSpec struct {
	Invariants []Clause
	Decreases  []Clause
}

type GhostSet struct {
	Name string
	Expr Expr
	Line int
}

type Transfer struct {
	Ghost  Expr // ghost lvalue, e.g. debt(wg)
	Amount Expr
}

type FuncContract struct {
	Key       string // normalised function key
	Variant   string // e.g. "v:*string" for polymorphic externals
	Pkg       string // package path for name resolution
	Requires  []Clause
	Ensures   []Clause
	Modifies  []Expr
	Loops     map[int]*LoopSpec
	Trusted   bool // body not verified (listed in evidence)
	NilRecv   bool // receiver may be nil
	MayPanic  bool // explicit panics are documented behaviour (not obligations)
	NoReturn  bool // ensures false is intended: the call never returns normally
	Root      bool // goroutine root: thread-local ghost starts at zero except transfers
	Transfers []Transfer
	Fresh     []string // results that are freshly allocated (or nil)
	Asserts   map[string][]Clause // call-site assertions keyed by "call.name#k"
	Assumes   map[string][]Clause // call-site ASSUMPTIONS (unchecked; listed in the evidence)
	Stable    []Clause            // facts about shared state assumed after every Lock (rely; listed in the evidence)
	GhostVars []QVar              // ghost locals (name, sort); visible in ensures as their final values
	GhostSets map[string][]GhostSet // site -> assignments executed just before the site
	Captures  []Clause // closure: facts about captured values, checked at creation, assumed at entry
	Iterates  string   // parameter name of a callback invoked an arbitrary number of times
	IterAssume []Clause // facts about the values the callback is invoked with (arg0, arg1, ...)
	NoLockset string   // reason for exempting this function from lockset obligations
	Assumed   bool // comes from /verif/spec (dependency ledger)
	Inline    bool // force inlining even though clauses exist (unused)
	File      string
	Line      int
	Bound     bool // set when matched against an SSA function
}

type GhostDecl struct {
	Name        string
	Args        []string // sorts
	Ret         string
	ThreadLocal bool
}

type SpecDecl struct {
	Name string
	Args []string
	Ret  string
}

type PureDecl struct {
	Pkg    string
	Name   string
	Params []QVar
	Ret    string
	Body   Expr
}

type Monitor struct {
	Key        string // "(*pkg.Server).mu"  -> type + field
	TypeName   string // pkgpath.Server
	Field      string // mu
	Owner      string // name used for the owner object in invariants
	Guards     []string
	GhostHavoc []string // ghost names havocked at Lock
	Invariants []Clause
	Invariants2 []Clause // two-state: old(e) is e at the matching Lock; checked at Unlock only
	Pkg        string
}

type Census struct {
	Name  string
	Props []string
	Rule  string // textual rule, interpreted by census.go
	Args  []string
	Pkg   string
	File  string
	Line  int
}

type Specs struct {
	Funcs     map[string][]*FuncContract // key -> variants
	Roles     map[string]*FuncContract   // "field:pkg.Type.f" / "param:key.name" / "freevar:key.name" / "iface:pkg.I.M"
	Ghosts    map[string]*GhostDecl
	SpecFns   map[string]*SpecDecl
	Pures     map[string]*PureDecl
	Axioms    []Clause
	Sentinels []string // qualified global names
	SentinelType map[string]string // sentinel -> dynamic type name (optional)
	GlobalInv []Clause
	Monitors  []*Monitor
	Census    []*Census
	Lemmas    []*Lemma
	ChanMsgs  []*ChanMsg
	Transparent []string      // dependency struct types modelled field by field
	Immutable map[string]bool // pkg.Type.field declared immutable after construction
	Files     []string
}

// ChanMsg: sending a value of this type hands a ghost resource to the receiver.
type ChanMsg struct {
	TypeName string // qualified element type
	Ghost    Expr
	Amount   Expr // over "msg"
	Inv      Expr // message invariant (chaninv): asserted at send, assumed at receive
	Pkg      string
	File     string
	Line     int
}

type Lemma struct {
	Name  string
	Props []string
	Vars  []QVar
	Hyps  []Clause
	Concl []Clause
	Pkg   string
	File  string
	Line  int
}

func newSpecs() *Specs {
	return &Specs{
		Funcs: map[string][]*FuncContract{}, Roles: map[string]*FuncContract{},
		Ghosts: map[string]*GhostDecl{}, SpecFns: map[string]*SpecDecl{}, Pures: map[string]*PureDecl{},
		Immutable: map[string]bool{}, SentinelType: map[string]string{},
	}
}

var clauseHead = regexp.MustCompile(`^(requires|ensures|invariant|decreases|assert)(\[[^\]]*\])?\s+(.*)$`)

// qualifyKey turns a short function key used inside a package's contract file
// into the fully qualified SSA function string.
func qualifyKey(key, pkg string) string {
	key = strings.TrimSpace(key)
	if strings.HasPrefix(key, "(") {
		end := strings.Index(key, ")")
		recv := key[1:end]
		rest := key[end+1:]
		star := ""
		if strings.HasPrefix(recv, "*") {
			star = "*"
			recv = recv[1:]
		}
		if !strings.Contains(recv, ".") && pkg != "" {
			recv = pkg + "." + recv
		}
		return "(" + star + recv + ")" + rest
	}
	if !strings.Contains(key, ".") && pkg != "" {
		return pkg + "." + key
	}
	// "Type.method$1" style is not used; "pkg.Func" already qualified
	return key
}

// stripTypeArgs removes [...] instantiation brackets so that
// (*queue.Queue[jmessages]).Pop matches (*queue.Queue).Pop.
func stripTypeArgs(s string) string {
	var b strings.Builder
	depth := 0
	for _, r := range s {
		switch {
		case r == '[':
			depth++
		case r == ']':
			depth--
		case depth == 0:
			b.WriteRune(r)
		}
	}
	return b.String()
}

func parseTags(tag string) (props []string, label string) {
	tag = strings.Trim(tag, "[]")
	if tag == "" {
		return
	}
	parts := strings.SplitN(tag, ":", 2)
	for _, p := range strings.Split(parts[0], ",") {
		p = strings.TrimSpace(p)
		if p != "" {
			props = append(props, p)
		}
	}
	if len(parts) == 2 {
		label = strings.TrimSpace(parts[1])
	}
	return
}

// loadContractFile parses one file. pkg is the package path for name
// qualification ("" for /verif/spec files, which must use qualified keys);
// assumed marks dependency-ledger contracts.
// specOverlay: contract files replaced by a mutant patch (absolute path -> content)
var specOverlay map[string][]byte

func (sp *Specs) loadContractFile(path, pkg string, assumed bool) error {
	var rd io.Reader
	if b, ok := specOverlay[path]; ok {
		rd = bytes.NewReader(b)
	} else {
		f, err := os.Open(path)
		if err != nil {
			return err
		}
		defer f.Close()
		rd = f
	}
	sp.Files = append(sp.Files, path)
	sc := bufio.NewScanner(rd)
	sc.Buffer(make([]byte, 1<<20), 1<<20)
	type rawLine struct {
		text string
		line int
	}
	var lines []rawLine
	ln := 0
	for sc.Scan() {
		ln++
		t := sc.Text()
		ts := strings.TrimSpace(t)
		if !strings.HasPrefix(ts, "//@") {
			continue
		}
		body := strings.TrimPrefix(ts, "//@")
		// strip trailing comment " // ..." outside of string literals
		body = stripTrailingComment(body)
		if strings.TrimSpace(body) == "" {
			continue
		}
		lines = append(lines, rawLine{body, ln})
	}
	// join continuation lines: a line starting with '|' continues the previous
	var joined []rawLine
	for _, l := range lines {
		t := strings.TrimSpace(l.text)
		if strings.HasPrefix(t, "|") && len(joined) > 0 {
			joined[len(joined)-1].text += " " + strings.TrimSpace(t[1:])
			continue
		}
		joined = append(joined, rawLine{t, l.line})
	}

	var curFn *FuncContract
	var curMon *Monitor
	var curLemma *Lemma
	curPkg := pkg
	mkClause := func(tag, src string, line int) (Clause, error) {
		e, err := ParseExpr(src)
		if err != nil {
			return Clause{}, fmt.Errorf("%s:%d: %v", path, line, err)
		}
		props, label := parseTags(tag)
		return Clause{Label: label, Props: props, Expr: e, Src: src, File: path, Line: line}, nil
	}
	for _, l := range joined {
		t := l.text
		word := t
		rest := ""
		if i := strings.IndexAny(t, " \t"); i >= 0 {
			word, rest = t[:i], strings.TrimSpace(t[i+1:])
		}
		wbase := word
		wtag := ""
		if i := strings.Index(word, "["); i >= 0 {
			wbase, wtag = word[:i], word[i:]
		}
		switch wbase {
		case "package":
			curPkg = rest
			curFn, curMon, curLemma = nil, nil, nil
		case "func", "role", "iface":
			curMon, curLemma = nil, nil
			variant := ""
			key := rest
			if i := strings.Index(rest, " ["); i >= 0 && wbase == "func" {
				key = strings.TrimSpace(rest[:i])
				variant = strings.Trim(strings.TrimSpace(rest[i+1:]), "[]")
				variant = strings.ReplaceAll(variant, " ", "")
			}
			fc := &FuncContract{Pkg: curPkg, Loops: map[int]*LoopSpec{}, Assumed: assumed, File: path, Line: l.line, Variant: variant}
			switch wbase {
			case "func":
				fc.Key = stripTypeArgs(qualifyKey(key, curPkg))
				sp.Funcs[fc.Key] = append(sp.Funcs[fc.Key], fc)
			case "role":
				// role field Type.f | role param (*T).m.name | role freevar key.name
				parts := strings.Fields(rest)
				if len(parts) != 2 {
					return fmt.Errorf("%s:%d: bad role line", path, l.line)
				}
				k := parts[1]
				switch parts[0] {
				case "functype":
				case "field":
					if strings.Count(k, ".") == 1 && curPkg != "" {
						k = curPkg + "." + k
					}
				case "param", "freevar":
					i := strings.LastIndex(k, ".")
					k = stripTypeArgs(qualifyKey(k[:i], curPkg)) + "." + k[i+1:]
				}
				fc.Key = parts[0] + ":" + k
				sp.Roles[fc.Key] = fc
			case "iface":
				k := rest
				if strings.Count(k, ".") == 1 && curPkg != "" {
					k = curPkg + "." + k
				}
				fc.Key = "iface:" + k
				sp.Roles[fc.Key] = fc
			}
			curFn = fc
		case "requires", "ensures":
			c, err := mkClause(wtag, rest, l.line)
			if err != nil {
				return err
			}
			if curLemma != nil {
				if wbase == "requires" {
					curLemma.Hyps = append(curLemma.Hyps, c)
				} else {
					curLemma.Concl = append(curLemma.Concl, c)
				}
				continue
			}
			if curFn == nil {
				return fmt.Errorf("%s:%d: clause outside func", path, l.line)
			}
			if wbase == "requires" {
				curFn.Requires = append(curFn.Requires, c)
			} else {
				curFn.Ensures = append(curFn.Ensures, c)
			}
		case "modifies":
			if curFn == nil {
				return fmt.Errorf("%s:%d: modifies outside func", path, l.line)
			}
			for _, part := range splitTop(rest) {
				e, err := ParseExpr(part)
				if err != nil {
					return fmt.Errorf("%s:%d: %v", path, l.line, err)
				}
				curFn.Modifies = append(curFn.Modifies, e)
			}
		case "transfer":
			if curFn == nil {
				return fmt.Errorf("%s:%d: transfer outside func", path, l.line)
			}
			parts := splitTop(rest)
			if len(parts) != 2 {
				return fmt.Errorf("%s:%d: transfer needs ghost, amount", path, l.line)
			}
			g, err := ParseExpr(parts[0])
			if err != nil {
				return fmt.Errorf("%s:%d: %v", path, l.line, err)
			}
			a, err := ParseExpr(parts[1])
			if err != nil {
				return fmt.Errorf("%s:%d: %v", path, l.line, err)
			}
			curFn.Transfers = append(curFn.Transfers, Transfer{g, a})
		case "loop":
			if curFn == nil {
				return fmt.Errorf("%s:%d: loop outside func", path, l.line)
			}
			parts := strings.SplitN(rest, " ", 2)
			n, err := strconv.Atoi(parts[0])
			if err != nil || len(parts) < 2 {
				return fmt.Errorf("%s:%d: bad loop clause", path, l.line)
			}
			m := clauseHead.FindStringSubmatch(strings.TrimSpace(parts[1]))
			if m == nil {
				return fmt.Errorf("%s:%d: bad loop clause %q", path, l.line, parts[1])
			}
			c, err := mkClause(m[2], m[3], l.line)
			if err != nil {
				return err
			}
			ls := curFn.Loops[n]
			if ls == nil {
				ls = &LoopSpec{}
				curFn.Loops[n] = ls
			}
			if m[1] == "invariant" {
				ls.Invariants = append(ls.Invariants, c)
			} else {
				ls.Decreases = append(ls.Decreases, c)
			}
		case "ghostvar":
			f := strings.Fields(rest)
			if len(f) != 2 || curFn == nil {
				return fmt.Errorf("%s:%d: ghostvar name Sort", path, l.line)
			}
			curFn.GhostVars = append(curFn.GhostVars, QVar{f[0], f[1]})
		case "stable":
			c, err := mkClause(wtag, rest, l.line)
			if err != nil {
				return err
			}
			curFn.Stable = append(curFn.Stable, c)
		case "captures":
			c, err := mkClause(wtag, rest, l.line)
			if err != nil {
				return err
			}
			curFn.Captures = append(curFn.Captures, c)
		case "iterates":
			curFn.Iterates = strings.TrimSpace(rest)
		case "iterassume":
			c, err := mkClause(wtag, rest, l.line)
			if err != nil {
				return err
			}
			curFn.IterAssume = append(curFn.IterAssume, c)
		case "nolockset":
			curFn.NoLockset = rest
			if rest == "" {
				curFn.NoLockset = "declared exception"
			}
		case "at":
			// at call.h#1 assert[C06:label] expr
			if curFn == nil {
				return fmt.Errorf("%s:%d: at outside func", path, l.line)
			}
			parts := strings.SplitN(rest, " ", 2)
			if len(parts) != 2 {
				return fmt.Errorf("%s:%d: bad at clause", path, l.line)
			}
			if gs := strings.TrimSpace(parts[1]); strings.HasPrefix(gs, "ghostset ") {
				eq := strings.Index(gs, "=")
				if eq < 0 {
					return fmt.Errorf("%s:%d: at <site> ghostset name = expr", path, l.line)
				}
				name := strings.TrimSpace(gs[len("ghostset "):eq])
				e, err := ParseExpr(strings.TrimSpace(gs[eq+1:]))
				if err != nil {
					return fmt.Errorf("%s:%d: %v", path, l.line, err)
				}
				if curFn.GhostSets == nil {
					curFn.GhostSets = map[string][]GhostSet{}
				}
				curFn.GhostSets[parts[0]] = append(curFn.GhostSets[parts[0]], GhostSet{name, e, l.line})
				continue
			}
			if as := strings.TrimSpace(parts[1]); strings.HasPrefix(as, "assume") {
				re := regexp.MustCompile(`^assume(\[[^\]]*\])?\s+(.*)$`)
				mm := re.FindStringSubmatch(as)
				if mm == nil {
					return fmt.Errorf("%s:%d: at <site> assume[reason] <expr>", path, l.line)
				}
				e, err := ParseExpr(mm[2])
				if err != nil {
					return fmt.Errorf("%s:%d: %v", path, l.line, err)
				}
				if curFn.Assumes == nil {
					curFn.Assumes = map[string][]Clause{}
				}
				curFn.Assumes[parts[0]] = append(curFn.Assumes[parts[0]], Clause{Label: strings.Trim(mm[1], "[]"), Expr: e, Src: mm[2], File: path, Line: l.line})
				continue
			}
			m := clauseHead.FindStringSubmatch(strings.TrimSpace(parts[1]))
			if m == nil || m[1] != "assert" {
				return fmt.Errorf("%s:%d: at <site> assert <expr>", path, l.line)
			}
			c, err := mkClause(m[2], m[3], l.line)
			if err != nil {
				return err
			}
			if curFn.Asserts == nil {
				curFn.Asserts = map[string][]Clause{}
			}
			curFn.Asserts[parts[0]] = append(curFn.Asserts[parts[0]], c)
		case "fresh":
			if curFn == nil {
				return fmt.Errorf("%s:%d: fresh outside func", path, l.line)
			}
			curFn.Fresh = append(curFn.Fresh, strings.Fields(rest)...)
		case "trusted":
			curFn.Trusted = true
		case "nilrecv":
			curFn.NilRecv = true
		case "maypanic":
			curFn.MayPanic = true
		case "noreturn":
			curFn.NoReturn = true
		case "root":
			curFn.Root = true
		case "ghost", "tlghost":
			d, err := parseDecl(rest)
			if err != nil {
				return fmt.Errorf("%s:%d: %v", path, l.line, err)
			}
			sp.Ghosts[d.Name] = &GhostDecl{Name: d.Name, Args: d.Args, Ret: d.Ret, ThreadLocal: wbase == "tlghost"}
		case "spec":
			d, err := parseDecl(rest)
			if err != nil {
				return fmt.Errorf("%s:%d: %v", path, l.line, err)
			}
			sp.SpecFns[d.Name] = d
		case "pure":
			// pure name(x Sort, y Sort) Sort = expr
			eq := strings.Index(rest, "=")
			if eq < 0 {
				return fmt.Errorf("%s:%d: pure needs '='", path, l.line)
			}
			// careful: '=' could be part of '==' in body only; header has no '='
			head, body := strings.TrimSpace(rest[:eq]), strings.TrimSpace(rest[eq+1:])
			op := strings.Index(head, "(")
			cp := strings.LastIndex(head, ")")
			if op < 0 || cp < op {
				return fmt.Errorf("%s:%d: bad pure header", path, l.line)
			}
			pd := &PureDecl{Pkg: curPkg, Name: strings.TrimSpace(head[:op]), Ret: strings.TrimSpace(head[cp+1:])}
			for _, p := range splitTop(head[op+1 : cp]) {
				f := strings.Fields(p)
				if len(f) != 2 {
					return fmt.Errorf("%s:%d: bad pure param %q", path, l.line, p)
				}
				pd.Params = append(pd.Params, QVar{f[0], f[1]})
			}
			e, err := ParseExpr(body)
			if err != nil {
				return fmt.Errorf("%s:%d: %v", path, l.line, err)
			}
			pd.Body = e
			sp.Pures[pd.Name] = pd
		case "axiom":
			by := ""
			if t := strings.Trim(wtag, "[]"); strings.HasPrefix(t, "by:") {
				by = strings.TrimSpace(t[3:])
				wtag = ""
			}
			c, err := mkClause(wtag, rest, l.line)
			if err != nil {
				return err
			}
			c.By = by
			c.Label = curPkg // package context for name resolution
			sp.Axioms = append(sp.Axioms, c)
		case "globalinv":
			c, err := mkClause(wtag, rest, l.line)
			if err != nil {
				return err
			}
			c.Label = curPkg // remember the package for resolution
			sp.GlobalInv = append(sp.GlobalInv, c)
		case "sentinel":
			for _, s := range strings.Fields(rest) {
				if !strings.Contains(s, ".") && curPkg != "" {
					s = curPkg + "." + s
				}
				sp.Sentinels = append(sp.Sentinels, s)
				if wtag != "" {
					sp.SentinelType[s] = strings.Trim(wtag, "[]")
				}
			}
		case "chanmsg":
			// chanmsg Type ghost, amount
			parts := strings.SplitN(rest, " ", 2)
			if len(parts) != 2 {
				return fmt.Errorf("%s:%d: chanmsg Type ghost, amount", path, l.line)
			}
			ga := splitTop(parts[1])
			if len(ga) != 2 {
				return fmt.Errorf("%s:%d: chanmsg Type ghost, amount", path, l.line)
			}
			g, err := ParseExpr(ga[0])
			if err != nil {
				return fmt.Errorf("%s:%d: %v", path, l.line, err)
			}
			a, err := ParseExpr(ga[1])
			if err != nil {
				return fmt.Errorf("%s:%d: %v", path, l.line, err)
			}
			tn := parts[0]
			if !strings.Contains(tn, ".") && curPkg != "" {
				tn = curPkg + "." + tn
			}
			sp.ChanMsgs = append(sp.ChanMsgs, &ChanMsg{TypeName: tn, Ghost: g, Amount: a, Pkg: curPkg, File: path, Line: l.line})
		case "chaninv":
			parts := strings.SplitN(rest, " ", 2)
			if len(parts) != 2 {
				return fmt.Errorf("%s:%d: chaninv Type expr", path, l.line)
			}
			e, err := ParseExpr(parts[1])
			if err != nil {
				return fmt.Errorf("%s:%d: %v", path, l.line, err)
			}
			tn := parts[0]
			star := ""
			if strings.HasPrefix(tn, "*") {
				star, tn = "*", tn[1:]
			}
			if !strings.Contains(tn, ".") && curPkg != "" {
				tn = curPkg + "." + tn
			}
			tn = star + tn
			sp.ChanMsgs = append(sp.ChanMsgs, &ChanMsg{TypeName: tn, Inv: e, Pkg: curPkg, File: path, Line: l.line})
		case "transparent":
			// transparent pkg.Type: a struct type of a dependency whose fields
			// the code reads directly (modelled like the module's own structs)
			for _, s := range strings.Fields(rest) {
				sp.Transparent = append(sp.Transparent, s)
			}
		case "immutable":
			for _, s := range strings.Fields(rest) {
				if strings.Count(s, ".") == 1 && curPkg != "" {
					s = curPkg + "." + s
				}
				sp.Immutable[s] = true
			}
		case "monitor":
			// monitor Type.field owner name
			parts := strings.Fields(rest)
			if len(parts) != 3 || parts[1] != "owner" {
				return fmt.Errorf("%s:%d: monitor Type.field owner name", path, l.line)
			}
			i := strings.LastIndex(parts[0], ".")
			m := &Monitor{TypeName: curPkg + "." + parts[0][:i], Field: parts[0][i+1:], Owner: parts[2], Pkg: curPkg}
			m.Key = m.TypeName + "." + m.Field
			sp.Monitors = append(sp.Monitors, m)
			curMon, curFn, curLemma = m, nil, nil
		case "guards":
			if curMon == nil {
				return fmt.Errorf("%s:%d: guards outside monitor", path, l.line)
			}
			curMon.Guards = append(curMon.Guards, strings.Fields(rest)...)
		case "ghosthavoc":
			if curMon == nil {
				return fmt.Errorf("%s:%d: ghosthavoc outside monitor", path, l.line)
			}
			curMon.GhostHavoc = append(curMon.GhostHavoc, strings.Fields(rest)...)
		case "invariant", "invariant2":
			if curMon == nil {
				return fmt.Errorf("%s:%d: invariant outside monitor", path, l.line)
			}
			c, err := mkClause(wtag, rest, l.line)
			if err != nil {
				return err
			}
			if wbase == "invariant2" {
				curMon.Invariants2 = append(curMon.Invariants2, c)
			} else {
				curMon.Invariants = append(curMon.Invariants, c)
			}
		case "census":
			// census[C10] name: rule args...
			props, _ := parseTags(wtag)
			i := strings.Index(rest, ":")
			if i < 0 {
				return fmt.Errorf("%s:%d: census name: rule", path, l.line)
			}
			f := strings.Fields(rest[i+1:])
			if len(f) == 0 {
				return fmt.Errorf("%s:%d: census needs a rule", path, l.line)
			}
			sp.Census = append(sp.Census, &Census{Name: strings.TrimSpace(rest[:i]), Props: props, Rule: f[0], Args: f[1:], Pkg: curPkg, File: path, Line: l.line})
		case "lemma":
			props, _ := parseTags(wtag)
			// lemma name(x Sort, y Sort)
			op := strings.Index(rest, "(")
			cp := strings.LastIndex(rest, ")")
			lm := &Lemma{Props: props, Pkg: curPkg, File: path, Line: l.line}
			if op < 0 {
				lm.Name = strings.TrimSpace(rest)
			} else {
				lm.Name = strings.TrimSpace(rest[:op])
				for _, p := range splitTop(rest[op+1 : cp]) {
					f := strings.Fields(p)
					if len(f) != 2 {
						return fmt.Errorf("%s:%d: bad lemma param %q", path, l.line, p)
					}
					lm.Vars = append(lm.Vars, QVar{f[0], f[1]})
				}
			}
			sp.Lemmas = append(sp.Lemmas, lm)
			curLemma, curFn, curMon = lm, nil, nil
		default:
			return fmt.Errorf("%s:%d: unknown contract keyword %q", path, l.line, word)
		}
	}
	return nil
}

func parseDecl(s string) (*SpecDecl, error) {
	op := strings.Index(s, "(")
	if op < 0 {
		f := strings.Fields(s)
		if len(f) != 2 {
			return nil, fmt.Errorf("bad declaration %q", s)
		}
		return &SpecDecl{Name: f[0], Ret: f[1]}, nil
	}
	cp := strings.LastIndex(s, ")")
	d := &SpecDecl{Name: strings.TrimSpace(s[:op]), Ret: strings.TrimSpace(s[cp+1:])}
	for _, a := range splitTop(s[op+1 : cp]) {
		d.Args = append(d.Args, strings.TrimSpace(a))
	}
	return d, nil
}

// splitTop splits on commas not nested in parentheses/brackets/strings.
func splitTop(s string) []string {
	var out []string
	depth := 0
	inStr := false
	start := 0
	for i := 0; i < len(s); i++ {
		c := s[i]
		if inStr {
			if c == '\\' {
				i++
			} else if c == '"' {
				inStr = false
			}
			continue
		}
		switch c {
		case '"':
			inStr = true
		case '(', '[':
			depth++
		case ')', ']':
			depth--
		case ',':
			if depth == 0 {
				out = append(out, strings.TrimSpace(s[start:i]))
				start = i + 1
			}
		}
	}
	if strings.TrimSpace(s[start:]) != "" {
		out = append(out, strings.TrimSpace(s[start:]))
	}
	return out
}

func stripTrailingComment(s string) string {
	inStr := false
	for i := 0; i+1 < len(s); i++ {
		c := s[i]
		if inStr {
			if c == '\\' {
				i++
			} else if c == '"' {
				inStr = false
			}
			continue
		}
		if c == '"' {
			inStr = true
		} else if c == '\'' && i+2 < len(s) {
			// char literal
			j := i + 1
			if s[j] == '\\' {
				j++
			}
			if j+1 < len(s) && s[j+1] == '\'' {
				i = j + 1
			}
		} else if c == '/' && s[i+1] == '/' && (i == 0 || s[i-1] == ' ' || s[i-1] == '\t') {
			return s[:i]
		}
	}
	return s
}

// loadAllSpecs loads /verif/spec/**/*.gvc and <repo>/**/verif_contracts.go.
func loadAllSpecs(repo, specDir, modPath string) (*Specs, error) {
	sp := newSpecs()
	var specFiles []string
	filepath.Walk(specDir, func(p string, info os.FileInfo, err error) error {
		if err == nil && !info.IsDir() && strings.HasSuffix(p, ".gvc") {
			specFiles = append(specFiles, p)
		}
		return nil
	})
	sort.Strings(specFiles)
	for _, f := range specFiles {
		if err := sp.loadContractFile(f, "", true); err != nil {
			return nil, err
		}
	}
	var repoFiles []string
	filepath.Walk(repo, func(p string, info os.FileInfo, err error) error {
		if err != nil {
			return nil
		}
		if info.IsDir() && (info.Name() == ".git" || info.Name() == "tools") {
			return filepath.SkipDir
		}
		if !info.IsDir() && info.Name() == "verif_contracts.go" {
			repoFiles = append(repoFiles, p)
		}
		return nil
	})
	sort.Strings(repoFiles)
	for _, f := range repoFiles {
		rel, _ := filepath.Rel(repo, filepath.Dir(f))
		pkg := modPath
		if rel != "." {
			pkg = modPath + "/" + filepath.ToSlash(rel)
		}
		if err := sp.loadContractFile(f, pkg, false); err != nil {
			return nil, err
		}
	}
	return sp, nil
}
