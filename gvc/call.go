package main

// Calls: contracts (assert requires / havoc frame / assume ensures), inlining of
// un-contracted in-module callees, havoc of un-contracted externals, builtins,
// go / defer.

import (
	"go/token"
	"fmt"
	"go/types"
	"strings"

	"golang.org/x/tools/go/ssa"
)

const (
	ctHavoc = iota
	ctContract
	ctInline
)

type callTarget struct {
	kind    int
	fn      *ssa.Function
	fc      *FuncContract
	key     string
	role    string
	closure *closureInfo
}

func (fc *FuncContract) isSummary() bool {
	return fc != nil && (len(fc.Requires) > 0 || len(fc.Ensures) > 0 || len(fc.Modifies) > 0 || fc.Trusted || fc.Assumed || len(fc.Transfers) > 0 || len(fc.Captures) > 0)
}

// pickContract selects the variant matching the call's dynamic argument types.
func (fx *FnExec) pickContract(key string, fn *ssa.Function, args []ssa.Value) *FuncContract {
	cands := fx.P.Specs.Funcs[key]
	if len(cands) == 0 {
		return nil
	}
	var generic *FuncContract
	for _, fc := range cands {
		if fc.Variant == "" {
			generic = fc
			continue
		}
		// "name:type"
		i := strings.Index(fc.Variant, ":")
		pname, ptype := fc.Variant[:i], fc.Variant[i+1:]
		if fn == nil {
			continue
		}
		for pi, p := range fn.Params {
			if p.Name() != pname || pi >= len(args) {
				continue
			}
			a := args[pi]
			if mi, ok := a.(*ssa.MakeInterface); ok {
				a = mi.X
			}
			got := strings.ReplaceAll(typeName(a.Type()), " ", "")
			if got == ptype {
				return fc
			}
		}
	}
	return generic
}

// resolveStatic determines how a call is treated (used by execution and by the
// loop modified-set analysis).
func (fx *FnExec) resolveStatic(caller *ssa.Function, cc *ssa.CallCommon) callTarget {
	if cc.IsInvoke() {
		key := fx.ifaceRoleKey(cc)
		if fc, ok := fx.P.Specs.Roles[key]; ok {
			return callTarget{kind: ctContract, fc: fc, key: key, role: key}
		}
		return callTarget{kind: ctHavoc, key: key}
	}
	var fn *ssa.Function
	switch v := cc.Value.(type) {
	case *ssa.Function:
		fn = v
	case *ssa.MakeClosure:
		fn = v.Fn.(*ssa.Function)
	}
	if fn != nil {
		key := fnKey(fn)
		if fc := fx.pickContract(key, fn, cc.Args); fc.isSummary() {
			return callTarget{kind: ctContract, fn: fn, fc: fc, key: key}
		}
		if len(fn.Blocks) > 0 && fx.inlinable(fn) {
			var loopsFC *FuncContract
			if cs := fx.P.Specs.Funcs[key]; len(cs) > 0 {
				loopsFC = cs[0]
			}
			return callTarget{kind: ctInline, fn: fn, fc: loopsFC, key: key}
		}
		return callTarget{kind: ctHavoc, fn: fn, key: key}
	}
	// call through a function value: role by provenance, then by named func type
	role := fx.funcValueRole(caller, cc.Value)
	if fc, ok := fx.P.Specs.Roles[role]; ok {
		return callTarget{kind: ctContract, fc: fc, key: role, role: role}
	}
	if n, ok := types.Unalias(cc.Value.Type()).(*types.Named); ok {
		k := "functype:" + typeName(n)
		if fc, ok := fx.P.Specs.Roles[k]; ok {
			return callTarget{kind: ctContract, fc: fc, key: k, role: k}
		}
	}
	return callTarget{kind: ctHavoc, key: role}
}

func (fx *FnExec) inlinable(fn *ssa.Function) bool {
	pkg := fn.Pkg
	if pkg == nil && fn.Parent() != nil {
		pkg = fn.Parent().Pkg
	}
	if pkg == nil {
		return false
	}
	return fx.P.inModule(pkg.Pkg.Path())
}

func (fx *FnExec) ifaceRoleKey(cc *ssa.CallCommon) string {
	t := cc.Value.Type()
	name := typeName(types.Unalias(t))
	if n, ok := types.Unalias(t).(*types.Named); ok {
		name = typeName(n)
	}
	return "iface:" + name + "." + cc.Method.Name()
}

func (fx *FnExec) funcValueRole(caller *ssa.Function, v ssa.Value) string {
	switch x := v.(type) {
	case *ssa.UnOp:
		if fa, ok := x.X.(*ssa.FieldAddr); ok {
			pt := fa.X.Type().Underlying().(*types.Pointer).Elem()
			f := pt.Underlying().(*types.Struct).Field(fa.Field)
			return "field:" + typeName(pt) + "." + f.Name()
		}
		if fv, ok := x.X.(*ssa.FreeVar); ok {
			return "freevar:" + fnKey(fv.Parent()) + "." + fv.Name()
		}
		if al, ok := x.X.(*ssa.Alloc); ok {
			return "local:" + fnKey(al.Parent()) + "." + al.Comment
		}
	case *ssa.Field:
		return "field:" + typeName(x.X.Type()) + "." + x.X.Type().Underlying().(*types.Struct).Field(x.Field).Name()
	case *ssa.Parameter:
		return "param:" + fnKey(x.Parent()) + "." + x.Name()
	case *ssa.FreeVar:
		return "freevar:" + fnKey(x.Parent()) + "." + x.Name()
	case *ssa.Extract:
		if c, ok := x.Tuple.(*ssa.Call); ok {
			return fmt.Sprintf("result:%s.%d", calleeName(c.Common()), x.Index)
		}
	case *ssa.Call:
		return "result:" + calleeName(x.Common()) + ".0"
	case *ssa.Phi:
		return "local:" + fnKey(x.Parent()) + "." + x.Comment
	}
	return "funcvalue"
}

// ---- instruction entry points ----

func (fx *FnExec) resumeAfter(st *State, fr *frame, ins ssa.Instruction) {
	b := ins.Block()
	idx := -1
	for i, x := range b.Instrs {
		if x == ins {
			idx = i
			break
		}
	}
	for _, nx := range b.Instrs[idx+1:] {
		if st.dead {
			return
		}
		if !fx.step(st, fr, nx) {
			return
		}
	}
}

// recordCall notes that the site (a call, go or defer statement of the
// function under verification) was executed on this path: called()/callres().
func (fx *FnExec) recordCall(st *State, ins ssa.Instruction, results []Term) {
	if ins == nil || ins.Parent() != fx.fn {
		return
	}
	m := make(map[string][]Term, len(st.callRes)+1)
	for k, r := range st.callRes {
		m[k] = r
	}
	m[fx.ord(fx.fn, ins, "")] = results
	st.callRes = m
}

func (fx *FnExec) bindResults(st *State, v ssa.Value, sig *types.Signature, results []Term) {
	if ins, ok := v.(ssa.Instruction); ok {
		fx.recordCall(st, ins, results)
	}
	n := sig.Results().Len()
	switch {
	case n == 0:
	case n == 1:
		if len(results) > 0 {
			st.vals[v] = results[0]
		}
	default:
		st.tups[v] = results
	}
}

func (fx *FnExec) doCallInstr(st *State, fr *frame, x *ssa.Call) bool {
	cc := x.Common()
	if b, ok := cc.Value.(*ssa.Builtin); ok {
		if b.Name() == "append" && len(cc.Args) == 2 && !localBuilt(cc.Args[0], map[ssa.Value]bool{}) {
			// in place or reallocated: two paths rather than one ite-laden state
			s2 := st.clone()
			st.path = append(st.path, "append:inplace")
			st.appendCase = 1
			fx.doBuiltin(st, fr, x, b)
			st.appendCase = 0
			fx.resumeAfter(st, fr, x)
			s2.path = append(s2.path, "append:realloc")
			s2.appendCase = 2
			fx.doBuiltin(s2, fr, x, b)
			s2.appendCase = 0
			fx.resumeAfter(s2, fr, x)
			return false
		}
		fx.doBuiltin(st, fr, x, b)
		return true
	}
	args := fx.evalArgs(st, cc)
	fx.call(st, fr, cc, args, x, "call", func(st *State, results []Term) {
		fx.bindResults(st, x, cc.Signature(), results)
		fx.resumeAfter(st, fr, x)
	})
	return false
}

type callArgs struct {
	fval  Term   // function value / receiver interface
	terms []Term // argument terms (for invoke: excluding receiver)
	vals  []ssa.Value
	lvs   []*LValue
}

func (fx *FnExec) evalArgs(st *State, cc *ssa.CallCommon) *callArgs {
	ca := &callArgs{}
	switch cc.Value.(type) {
	case *ssa.Function, *ssa.Builtin:
	default:
		ca.fval = st.val(cc.Value)
	}
	for _, a := range cc.Args {
		ca.terms = append(ca.terms, st.val(a))
		ca.vals = append(ca.vals, a)
		var lv *LValue
		src := a
		if mi, ok := a.(*ssa.MakeInterface); ok {
			src = mi.X
		}
		if _, isPtr := src.Type().Underlying().(*types.Pointer); isPtr {
			if l, ok := st.lvs[src]; ok {
				lv = l
			} else if _, isG := src.(*ssa.Global); !isG {
				lv = st.lvOf(src)
			}
		}
		ca.lvs = append(ca.lvs, lv)
	}
	return ca
}

func (fx *FnExec) doGo(st *State, fr *frame, x *ssa.Go) bool {
	cc := x.Common()
	args := fx.evalArgs(st, cc)
	fx.call(st, fr, cc, args, x, "go", func(st *State, results []Term) {
		fx.recordCall(st, x, nil)
		fx.resumeAfter(st, fr, x)
	})
	return false
}

func (fx *FnExec) doDefer(st *State, fr *frame, x *ssa.Defer) {
	cc := x.Common()
	args := fx.evalArgs(st, cc)
	d := &deferRec{call: cc, site: x, fr: fr}
	d.fval = args.fval
	d.args = args.terms
	st.deferArgs()[d] = args
	st.deferStack = append(append([]*deferRec(nil), st.deferStack...), d)
}

func (st *State) deferArgs() map[*deferRec]*callArgs {
	m := make(map[*deferRec]*callArgs, len(st.dargs)+1)
	for k, v := range st.dargs {
		m[k] = v
	}
	st.dargs = m
	return m
}

func (fx *FnExec) doRunDefers(st *State, fr *frame, x *ssa.RunDefers) bool {
	// run the defers of this frame, LIFO
	var mine []*deferRec
	var rest []*deferRec
	for _, d := range st.deferStack {
		if d.fr == fr {
			mine = append(mine, d)
		} else {
			rest = append(rest, d)
		}
	}
	st.deferStack = rest
	var run func(st *State, i int)
	run = func(st *State, i int) {
		if i < 0 {
			fx.resumeAfter(st, fr, x)
			return
		}
		d := mine[i]
		fx.call(st, fr, d.call, st.dargs[d], d.site, "defer", func(st *State, rs []Term) {
			fx.recordCall(st, d.site, rs)
			run(st, i-1)
		})
	}
	run(st, len(mine)-1)
	return false
}

// ---- the call itself ----

// siteAsserts: `at <site> assert e` clauses of the enclosing function's contract.
func (fx *FnExec) siteEnv(st *State, fr *frame, site ssa.Instruction) *evalEnv {
	env := fx.frameEnv(st, fr)
	// phi names of the loops enclosing the site
	li := fx.loops(fr.fn)
	for _, h := range li.headers {
		if !h.body[site.Block()] {
			continue
		}
		for _, ins := range h.header.Instrs {
			phi, ok := ins.(*ssa.Phi)
			if !ok {
				break
			}
			if phi.Comment == "" {
				continue
			}
			if t, ok := st.vals[phi]; ok {
				if _, dup := env.vars[phi.Comment]; !dup {
					env.vars[phi.Comment] = cval{t: t, typ: phi.Type(), sort: fx.sortOf(phi.Type())}
				}
			}
		}
	}
	// index-style loops around the site (see indexAlias): only when no
	// enclosing loop has a rangeindex of its own and exactly one qualifies
	own := false
	var idxLoops []*loopHdr
	for _, h := range li.headers {
		if !h.body[site.Block()] {
			continue
		}
		hasOwn := false
		for _, ins := range h.header.Instrs {
			phi, ok := ins.(*ssa.Phi)
			if !ok {
				break
			}
			if phi.Comment == "rangeindex" {
				hasOwn = true
			}
		}
		if hasOwn {
			own = true
		} else {
			idxLoops = append(idxLoops, h)
		}
	}
	if !own && len(idxLoops) == 1 {
		fx.indexAlias(env, st, idxLoops[0])
	}
	return env
}

// ghostSets: `at <site> ghostset g = e` assignments, executed just before the site.
func (fx *FnExec) ghostSets(st *State, fr *frame, site ssa.Instruction) {
	if fr.fc == nil || len(fr.fc.GhostSets) == 0 {
		return
	}
	name := fx.ord(fr.fn, site, "")
	gss := fr.fc.GhostSets[name]
	if len(gss) == 0 {
		return
	}
	fx.boundAsserts[fnKey(fr.fn)+"@gs:"+name] = true
	env := fx.siteEnv(st, fr, site)
	if ret, ok := site.(*ssa.Return); ok {
		rs := fr.fn.Signature.Results()
		names := resultNames(fr.fn.Signature)
		for i, r := range ret.Results {
			cv := cval{t: st.val(r), typ: rs.At(i).Type(), sort: fx.sortOf(rs.At(i).Type())}
			env.vars[fmt.Sprintf("result%d", i)] = cv
			env.vars[names[i]] = cv
			if rs.Len() == 1 {
				env.vars["result"] = cv
			}
		}
	}
	if ci, ok := site.(ssa.CallInstruction); ok {
		for i, a := range ci.Common().Args {
			if _, dup := env.vars[fmt.Sprintf("arg%d", i)]; !dup {
				env.vars[fmt.Sprintf("arg%d", i)] = cval{t: st.val(a), typ: a.Type(), sort: fx.sortOf(a.Type())}
			}
		}
	}
	for _, gs := range gss {
		v, err := env.safeEval(gs.Expr)
		if err != nil {
			panic(fmt.Sprintf("%s:%d: %v", fr.fc.File, gs.Line, err))
		}
		srt := ""
		for _, g := range fr.fc.GhostVars {
			if g.Name == gs.Name {
				srt, _ = env.resolveType(g.Type)
			}
		}
		if srt == "" {
			// a declared (global) ghost location, e.g. slotId(rsp.ch)
			tgt, perr := ParseExpr(gs.Name)
			if perr != nil {
				panic(evalErr{"ghostset: bad target " + gs.Name})
			}
			fx.assignGhost(st, env, tgt, v.t)
			continue
		}
		st.heapSet("gv."+gs.Name, srt, v.t)
	}
}

func (fx *FnExec) siteAsserts(st *State, fr *frame, cc *ssa.CallCommon, args *callArgs, site ssa.Instruction) {
	if fr.fc != nil && len(fr.fc.Assumes) > 0 {
		name := fx.ord(fr.fn, site, "")
		if cs := fr.fc.Assumes[name]; len(cs) > 0 {
			env := fx.siteEnv(st, fr, site)
			for _, c := range cs {
				v, err := env.safeEval(c.Expr)
				if err != nil {
					panic(fmt.Sprintf("%s:%d: %v", c.File, c.Line, err))
				}
				st.assume(v.t)
				fx.notes = appendUnique(fx.notes, fmt.Sprintf("ASSUMED at %s in %s: %s (%s)", name, shortFn(fr.fn), c.Src, c.Label))
			}
		}
	}
	if fr.fc == nil || len(fr.fc.Asserts) == 0 {
		return
	}
	name := fx.ord(fr.fn, site, "")
	cs := fr.fc.Asserts[name]
	if len(cs) == 0 {
		return
	}
	fx.boundAsserts[fnKey(fr.fn)+"@"+name] = true
	env := fx.siteEnv(st, fr, site)
	for i, t := range args.terms {
		if i < len(args.vals) {
			env.vars[fmt.Sprintf("arg%d", i)] = cval{t: t, typ: args.vals[i].Type(), sort: fx.sortOf(args.vals[i].Type()), lv: args.lvs[i]}
		}
	}
	if args.fval != "" {
		env.vars["callee"] = cval{t: args.fval, sort: fx.sortOf(cc.Value.Type()), typ: cc.Value.Type()}
	}
	for i, c := range cs {
		v, err := env.safeEval(c.Expr)
		if err != nil {
			panic(fmt.Sprintf("%s:%d: %v", c.File, c.Line, err))
		}
		fx.emit(st, fr, "assert", name+"/"+clauseName(c, i), v.t, c.Props, c.Src)
		st.assume(v.t)
	}
}

func (fx *FnExec) call(st *State, fr *frame, cc *ssa.CallCommon, args *callArgs, site ssa.Instruction, mode string, k func(*State, []Term)) {
	fx.ghostSets(st, fr, site)
	fx.siteAsserts(st, fr, cc, args, site)
	if b, ok := cc.Value.(*ssa.Builtin); ok {
		// deferred (or spawned) builtin
		switch b.Name() {
		case "close":
			c := args.terms[0]
			name := fx.ord(fr.fn, site, mode+".close")
			fx.emit(st, fr, "chan-open", name, "(and (not (= "+c+" 0)) (not "+st.ghostLoad("chanclosed", "Bool", c)+"))", nil, "")
			st.ghostStore("chanclosed", "Bool", c, "true")
		case "delete":
			mt := cc.Args[0].Type().Underlying().(*types.Map)
			fx.locksetMap(st, fr, cc.Args[0], site)
			ks, vs := fx.mapKV(mt)
			st.mapDelete(args.terms[0], ks, vs, args.terms[1])
		default:
			panic(unsupported(mode + " of builtin " + b.Name()))
		}
		k(st, nil)
		return
	}
	// calling a method on a nil interface, or a nil function value, panics
	if cc.IsInvoke() {
		fx.emit(st, fr, "nonnil", fx.ord(fr.fn, site, "call."+cc.Method.Name())+"/iface", "(not (= (ityp "+args.fval+") 0))", nil, "")
	} else {
		switch cc.Value.(type) {
		case *ssa.Function, *ssa.MakeClosure, *ssa.Builtin:
		default:
			if _, known := st.clos[args.fval]; !known {
				fx.emit(st, fr, "nonnil", fx.ord(fr.fn, site, "call."+calleeName(cc))+"/func", "(not (= "+args.fval+" 0))", nil, "")
			}
		}
	}
	// closures whose identity is known on this path
	if !cc.IsInvoke() {
		switch cc.Value.(type) {
		case *ssa.Function, *ssa.MakeClosure:
		default:
			if ci, ok := st.clos[args.fval]; ok {
				fx.callKnown(st, fr, ci.fn, ci, args, site, mode, k)
				return
			}
			// case split over known closures if the value could be one of them
			if len(st.clos) > 0 && fx.mayBeClosure(cc.Value) {
				var cands []Term
				for t, ci := range st.clos {
					if fx.onStack(fr, ci.fn) {
						continue
					}
					if types.Identical(ci.fn.Signature, cc.Signature()) || sameSigNoRecv(ci.fn.Signature, cc.Signature()) {
						cands = append(cands, t)
					}
				}
				for t, f := range fx.funcByConst {
					if fx.onStack(fr, f) || !fx.inlinable(f) {
						continue
					}
					if types.Identical(f.Signature, cc.Signature()) {
						cands = append(cands, t)
					}
				}
				sortStrings(cands)
				if len(cands) > 0 {
					for _, t := range cands {
						s2 := st.clone()
						s2.assume("(= " + args.fval + " " + t + ")")
						if ci, isClos := st.clos[t]; isClos {
							fx.callKnown(s2, fr, ci.fn, ci, args, site, mode, k)
						} else {
							fx.callKnown(s2, fr, fx.funcByConst[t], nil, args, site, mode, k)
						}
					}
					for _, t := range cands {
						st.assume("(not (= " + args.fval + " " + t + "))")
					}
				}
			}
		}
	}
	if mc, ok := cc.Value.(*ssa.MakeClosure); ok {
		ci := st.clos[st.val(mc)]
		fx.callKnown(st, fr, mc.Fn.(*ssa.Function), ci, args, site, mode, k)
		return
	}
	tgt := fx.resolveStatic(fr.fn, cc)
	fx.dispatch(st, fr, tgt, cc, args, site, mode, k)
}

func sameSigNoRecv(a, b *types.Signature) bool {
	return types.Identical(types.NewSignatureType(nil, nil, nil, a.Params(), a.Results(), a.Variadic()),
		types.NewSignatureType(nil, nil, nil, b.Params(), b.Results(), b.Variadic()))
}

func (fx *FnExec) mayBeClosure(v ssa.Value) bool {
	switch x := v.(type) {
	case *ssa.Phi:
		return true
	case *ssa.UnOp:
		// load from a local/captured cell may hold a closure; from a struct field: no
		if _, ok := x.X.(*ssa.FieldAddr); ok {
			return false
		}
		return true
	case *ssa.Extract, *ssa.Call:
		return true
	}
	return false
}

func sortStrings(s []string) {
	for i := 1; i < len(s); i++ {
		for j := i; j > 0 && s[j] < s[j-1]; j-- {
			s[j], s[j-1] = s[j-1], s[j]
		}
	}
}

func (fx *FnExec) callKnown(st *State, fr *frame, fn *ssa.Function, ci *closureInfo, args *callArgs, site ssa.Instruction, mode string, k func(*State, []Term)) {
	key := fnKey(fn)
	tgt := callTarget{fn: fn, key: key, closure: ci}
	if fc := fx.pickContract(key, fn, args.vals); fc.isSummary() {
		tgt.kind, tgt.fc = ctContract, fc
	} else if len(fn.Blocks) > 0 && fx.inlinable(fn) {
		tgt.kind = ctInline
		if cs := fx.P.Specs.Funcs[key]; len(cs) > 0 {
			tgt.fc = cs[0]
		}
	}
	fx.dispatch(st, fr, tgt, nil, args, site, mode, k)
}

func (fx *FnExec) dispatch(st *State, fr *frame, tgt callTarget, cc *ssa.CallCommon, args *callArgs, site ssa.Instruction, mode string, k func(*State, []Term)) {
	var sig *types.Signature
	if tgt.fn != nil {
		sig = tgt.fn.Signature
	} else {
		sig = cc.Signature()
	}
	switch tgt.kind {
	case ctContract:
		fx.applyContract(st, fr, tgt, sig, cc, args, site, mode, k)
	case ctInline:
		if mode == "go" {
			// the spawned body runs in another thread; nothing to execute here
			fx.notes = appendUnique(fx.notes, "go without contract: "+tgt.key)
			k(st, nil)
			return
		}
		if fx.inlineDepth(fr) >= 4 || fx.onStack(fr, tgt.fn) {
			fx.havocCall(st, fr, tgt, sig, cc, args, site, k)
			return
		}
		fx.inlined[tgt.key] = true
		fx.inline(st, fr, tgt, args, site, k)
	default:
		if mode == "go" {
			k(st, nil)
			return
		}
		fx.havocCall(st, fr, tgt, sig, cc, args, site, k)
	}
}

func appendUnique(s []string, x string) []string {
	for _, y := range s {
		if y == x {
			return s
		}
	}
	return append(s, x)
}

func (fx *FnExec) inlineDepth(fr *frame) int {
	d := 0
	for f := fr; f != nil; f = f.parent {
		d++
	}
	return d - 1
}

func (fx *FnExec) onStack(fr *frame, fn *ssa.Function) bool {
	for f := fr; f != nil; f = f.parent {
		if f.fn == fn {
			return true
		}
	}
	return false
}

func (fx *FnExec) inline(st *State, fr *frame, tgt callTarget, args *callArgs, site ssa.Instruction, k func(*State, []Term)) {
	fn := tgt.fn
	tag := fx.ord(fr.fn, site, "call."+fn.Name())
	if fr.tag != "" {
		tag = fr.tag + "/" + tag
	}
	nf := &frame{fn: fn, fc: tgt.fc, parent: fr, tag: tag}
	nf.ret = func(st *State, results []Term) { k(st, results) }
	for i, p := range fn.Params {
		st.vals[p] = args.terms[i]
		if args.lvs[i] != nil {
			if _, isPtr := p.Type().Underlying().(*types.Pointer); isPtr {
				st.lvs[p] = args.lvs[i]
			}
		} else {
			delete(st.lvs, p)
		}
	}
	if tgt.closure != nil {
		for i, fv := range fn.FreeVars {
			st.vals[fv] = tgt.closure.bindings[i]
			if tgt.closure.bindLVs[i] != nil {
				st.lvs[fv] = tgt.closure.bindLVs[i]
			} else {
				delete(st.lvs, fv)
			}
		}
	}
	// default receiver non-nil requirement for pointer-receiver methods
	if fn.Signature.Recv() != nil && len(fn.Params) > 0 {
		if _, isPtr := fn.Params[0].Type().Underlying().(*types.Pointer); isPtr {
			if tgt.fc == nil || !tgt.fc.NilRecv {
				if cs := fx.P.Specs.Funcs[tgt.key]; len(cs) == 0 || !cs[0].NilRecv {
					// the body's own dereferences generate the nonnil obligations
				}
			}
		}
	}
	fx.execBlock(st, nf, fn.Blocks[0], nil)
}

// havocCall: un-contracted callee. Results are unconstrained (within their
// types); memory reachable through pointer arguments is havocked one level.
func (fx *FnExec) havocCall(st *State, fr *frame, tgt callTarget, sig *types.Signature, cc *ssa.CallCommon, args *callArgs, site ssa.Instruction, k func(*State, []Term)) {
	fx.havocked[tgt.key] = true
	for i, a := range args.vals {
		fx.havocArg(st, a, args.terms[i], args.lvs[i])
	}
	var results []Term
	rs := sig.Results()
	for i := 0; i < rs.Len(); i++ {
		r := fx.freshConst("ret."+sanitize(shortKey(tgt.key)), fx.sortOf(rs.At(i).Type()))
		st.assumeWF(r, rs.At(i).Type())
		results = append(results, r)
	}
	// anything may have been allocated
	na := fx.freshConst("alloc", "Int")
	st.bumpAlloc(na)
	for i := range results {
		st.assumeWF(results[i], rs.At(i).Type())
	}
	k(st, results)
}

func shortKey(k string) string {
	if i := strings.LastIndex(k, "/"); i >= 0 {
		return k[i+1:]
	}
	return k
}

func (fx *FnExec) havocArg(st *State, a ssa.Value, t Term, lv *LValue) {
	src := a
	if mi, ok := a.(*ssa.MakeInterface); ok {
		src = mi.X
		t = st.val(src)
	}
	switch u := src.Type().Underlying().(type) {
	case *types.Pointer:
		if stt, isStruct := u.Elem().Underlying().(*types.Struct); isStruct {
			si := fx.structInfoOf(u.Elem())
			if si != nil && !si.opaque && fx.P.inModuleType(u.Elem()) {
				for i := 0; i < stt.NumFields(); i++ {
					hn := heapNameForField(u.Elem(), stt.Field(i).Name())
					h := st.heapGet(hn, arrOf(si.fsorts[i]))
					nv := fx.freshConst("havoc", si.fsorts[i])
					st.heapSet(hn, arrOf(si.fsorts[i]), "(store "+h+" "+t+" "+nv+")")
					st.assumeWF(nv, stt.Field(i).Type())
				}
			}
			return
		}
		if lv != nil && !isGlobalLV(lv) {
			nv := fx.freshConst("havoc", lv.elemSort)
			st.storeLV(lv, nv)
			st.assumeWF(nv, lv.typ)
		}
	case *types.Slice:
		es := fx.elemSort(u.Elem())
		mn, ms := "Mem."+sanitize(es), "(Array Int "+arrOf(es)+")"
		h := st.heapGet(mn, ms)
		nv := fx.freshConst("havocmem", arrOf(es))
		st.heapSet(mn, ms, "(store "+h+" (sptr "+t+") "+nv+")")
	}
}

// ---- contract application ----

func (fx *FnExec) contractEnv(st *State, tgt callTarget, sig *types.Signature, cc *ssa.CallCommon, args *callArgs) *evalEnv {
	env := &evalEnv{fx: fx, st: st, vars: map[string]cval{}, iters: st.loopIters}
	if tgt.fc != nil && tgt.fc.Pkg != "" {
		env.pkg = fx.P.TypesPkgs[tgt.fc.Pkg]
	}
	if env.pkg == nil && tgt.fn != nil && tgt.fn.Pkg != nil {
		env.pkg = tgt.fn.Pkg.Pkg
	}
	bind := func(name string, i int, typ types.Type) {
		if i >= len(args.terms) {
			return
		}
		cv := cval{t: args.terms[i], typ: typ, sort: fx.sortOf(typ), lv: args.lvs[i]}
		// interface-typed parameter holding a pointer: expose pointee type through the lvalue
		env.vars[name] = cv
	}
	if tgt.fn != nil {
		for i, p := range tgt.fn.Params {
			bind(p.Name(), i, p.Type())
			bind(fmt.Sprintf("arg%d", i), i, p.Type())
		}
		if tgt.closure != nil {
			for i, fv := range tgt.fn.FreeVars {
				t := tgt.closure.bindings[i]
				blv := tgt.closure.bindLVs[i]
				if pt, isPtr := fv.Type().Underlying().(*types.Pointer); isPtr && blv == nil {
					// a captured variable passed on by an enclosing closure: the cell at address t
					if _, isStruct := pt.Elem().Underlying().(*types.Struct); !isStruct {
						if _, isArr := pt.Elem().Underlying().(*types.Array); !isArr {
							srt := fx.sortOf(pt.Elem())
							blv = &LValue{kind: lvHeap, heap: "Cell." + sanitize(srt), heapSort: arrOf(srt), idx: t, elemSort: srt, typ: pt.Elem()}
						}
					}
				}
				if pt, isPtr := fv.Type().Underlying().(*types.Pointer); isPtr && blv != nil {
					env.vars[fv.Name()] = cval{t: st.load(blv), typ: pt.Elem(), sort: blv.elemSort, lv: blv, cell: true}
				} else {
					env.vars[fv.Name()] = cval{t: t, typ: fv.Type(), sort: fx.sortOf(fv.Type())}
				}
			}
		}
	} else if cc != nil {
		off := 0
		if cc.IsInvoke() {
			env.vars["self"] = cval{t: args.fval, typ: cc.Value.Type(), sort: "Iface"}
		} else {
			env.vars["self"] = cval{t: args.fval, typ: cc.Value.Type(), sort: "Int"}
		}
		ps := sig.Params()
		for i := 0; i < ps.Len(); i++ {
			bind(fmt.Sprintf("arg%d", i), off+i, ps.At(i).Type())
			if n := ps.At(i).Name(); n != "" && n != "_" {
				bind(n, off+i, ps.At(i).Type())
			}
		}
	}
	return env
}

func resultNames(sig *types.Signature) []string {
	rs := sig.Results()
	var names []string
	for i := 0; i < rs.Len(); i++ {
		n := rs.At(i).Name()
		if n == "" || n == "_" {
			n = fmt.Sprintf("result%d", i)
		}
		names = append(names, n)
	}
	return names
}

func (fx *FnExec) applyContract(st *State, fr *frame, tgt callTarget, sig *types.Signature, cc *ssa.CallCommon, args *callArgs, site ssa.Instruction, mode string, k func(*State, []Term)) {
	fc := tgt.fc
	fc.Bound = true
	if fc.Assumed {
		fx.assumed[tgt.key+variantSuffix(fc)] = true
	}
	cname := shortKey(tgt.key)
	ordName := fx.ord(fr.fn, site, "call."+cname)
	env := fx.contractEnv(st, tgt, sig, cc, args)

	// engine-level semantics of mutexes: monitor invariant at Unlock
	if tgt.key == "(*sync.Mutex).Unlock" && mode != "go" {
		fx.monitorUnlock(st, fr, site, cc, args, ordName)
	}

	// requires. For `go`, the spawned thread starts with no thread-local
	// resources except the transferred ones: its requires is evaluated in that
	// view (e.g. it holds no lock even though the spawner does).
	reqEnv := env
	if mode == "go" {
		view := st.clone()
		for _, name := range sortedKeys(fx.P.Specs.Ghosts) {
			g := fx.P.Specs.Ghosts[name]
			if g.ThreadLocal {
				view.heapSet("ghost."+name, fx.ghostSort(g), fx.zeroGhost(g))
			}
		}
		venv := *env
		venv.st = view
		for _, tr := range fc.Transfers {
			amt, err := env.safeEval(tr.Amount)
			if err != nil {
				panic(fmt.Sprintf("%s:%d: %v", fc.File, fc.Line, err))
			}
			fx.assignGhost(view, &venv, tr.Ghost, amt.t)
		}
		reqEnv = &venv
	}
	for i, c := range append(append([]Clause{}, fc.Captures...), fc.Requires...) {
		if mode != "go" && i < len(fc.Captures) {
			continue
		}
		v, err := reqEnv.safeEval(c.Expr)
		if err != nil {
			panic(fmt.Sprintf("%s:%d: %v", c.File, c.Line, err))
		}
		if mode == "go" && i < len(fc.Captures) {
			continue // captures were checked where the closure was created
		}
		fx.emit(st, fr, "requires", ordName+"/"+clauseName(c, i-len(fc.Captures)), v.t, c.Props, c.Src)
		if mode != "go" {
			st.assume(v.t)
		}
	}
	// default: pointer receivers are non-nil
	if tgt.fn != nil && tgt.fn.Signature.Recv() != nil && !fc.NilRecv && len(args.terms) > 0 {
		if _, isPtr := tgt.fn.Params[0].Type().Underlying().(*types.Pointer); isPtr {
			if len(args.vals) > 0 {
				fx.nonnil(st, fr, args.vals[0], args.terms[0], site, ordName+"/recv")
			}
		}
	}
	// stable facts about shared state must hold where the goroutine is spawned
	if mode == "go" {
		for i, c := range fc.Stable {
			v, err := env.safeEval(c.Expr)
			if err != nil {
				panic(fmt.Sprintf("%s:%d: %v", c.File, c.Line, err))
			}
			fx.emit(st, fr, "requires", ordName+"/stable:"+clauseName(c, i), v.t, c.Props, c.Src)
		}
	}
	// transfers (go): the spawned thread takes resources from this one
	if mode == "go" {
		for _, tr := range fc.Transfers {
			amt, err := env.safeEval(tr.Amount)
			if err != nil {
				panic(fmt.Sprintf("%s:%d: %v", fc.File, fc.Line, err))
			}
			cur, err := env.safeEval(tr.Ghost)
			if err != nil {
				panic(fmt.Sprintf("%s:%d: %v", fc.File, fc.Line, err))
			}
			fx.emit(st, fr, "token", ordName+"/have:"+tr.Ghost.String(), "(>= "+cur.t+" "+amt.t+")", nil, "")
			fx.assignGhost(st, env, tr.Ghost, "(- "+cur.t+" "+amt.t+")")
			// a goroutine holding a WaitGroup debt is joined by Wait on that group
			if gc, ok := tr.Ghost.(*ECall); ok && gc.Fn == "wgDebt" && len(gc.Args) == 1 {
				if w, err := env.safeEval(gc.Args[0]); err == nil {
					st.joins = append(append([]*pendingJoin(nil), st.joins...), &pendingJoin{wg: w.t, tgt: tgt, sig: sig, args: args})
				}
			}
		}
		k(st, nil)
		return
	}
	if fc.Iterates != "" {
		fx.iterateCallback(st, fr, tgt, args, site, ordName)
	}
	// havoc modifies
	fx.curSite, fx.curFrame = site, fr
	vacPre := len(st.pc)
	old := st.snapshotHeap()
	{
		// modifies targets denote locations of the pre-state
		pre := *env
		pre.old = old
		pre.inOld = true
		for _, m := range fc.Modifies {
			fx.havocTarget(st, &pre, m)
		}
	}
	// results
	var results []Term
	rs := sig.Results()
	names := resultNames(sig)
	for i := 0; i < rs.Len(); i++ {
		r := fx.freshConst("r."+sanitize(cname)+"."+names[i], fx.sortOf(rs.At(i).Type()))
		results = append(results, r)
	}
	// allocation may have happened
	allocBefore := st.alloc
	na := fx.freshConst("alloc", "Int")
	st.bumpAlloc(na)
	for _, pw := range fx.pendingWF {
		st.assumeWF(pw.t, pw.typ)
	}
	fx.pendingWF = nil
	// what the callee wrote is again a well-formed heap
	for _, name := range sortedTermKeys(st.heap) {
		if old[name] == st.heap[name] {
			continue
		}
		srt := fx.heapSorts[name]
		if fx.heapWF(name, srt, "x", na) == "" {
			continue
		}
		c := fx.freshConst(name+"@c", srt)
		st.assume("(= " + c + " " + st.heap[name] + ")")
		st.heap[name] = c
		st.assume(fx.heapWF(name, srt, c, na))
	}
	for i := range results {
		st.assumeWF(results[i], rs.At(i).Type())
		for _, fname := range fc.Fresh {
			if fname == names[i] || fname == fmt.Sprintf("result%d", i) || (fname == "result" && rs.Len() == 1) {
				switch fx.sortOf(rs.At(i).Type()) {
				case "Int":
					st.assume("(or (= " + results[i] + " 0) (> " + results[i] + " " + allocBefore + "))")
				case "Iface":
					st.assume("(or (= (ityp " + results[i] + ") 0) (> (ival " + results[i] + ") " + allocBefore + "))")
				case "Slice":
					st.assume("(or (= (sptr " + results[i] + ") 0) (> (sptr " + results[i] + ") " + allocBefore + "))")
				}
			}
		}
		cv := cval{t: results[i], typ: rs.At(i).Type(), sort: fx.sortOf(rs.At(i).Type())}
		env.vars[names[i]] = cv
		env.vars[fmt.Sprintf("result%d", i)] = cv
		if rs.Len() == 1 {
			env.vars["result"] = cv
		}
	}
	env.old = old
	env.entryAlloc = allocBefore
	env.calleeView = map[string]Term{}
	for _, g := range fc.GhostVars {
		// the callee's ghost locals are existentially quantified for the caller
		rs, rt := env.resolveType(g.Type)
		env.vars[g.Name] = cval{t: fx.freshConst("gv."+g.Name, rs), sort: rs, typ: rt}
	}
	for _, c := range fc.Ensures {
		v, err := env.safeEval(c.Expr)
		if err != nil {
			// A postcondition that names a local of the (verified) callee says
			// nothing a caller can use: it is proved at the callee's returns and
			// simply not exported. Dropping an assumption is sound.
			if !fc.Assumed && !fc.Trusted && strings.Contains(err.Error(), "unknown identifier") {
				continue
			}
			panic(fmt.Sprintf("%s:%d: %v", c.File, c.Line, err))
		}
		st.assume(v.t)
	}
	if tgt.key == "(*sync.Mutex).Lock" {
		fx.monitorLock(st, fr, site, cc, args)
	}
	if tgt.key == "(*sync.WaitGroup).Wait" && len(args.terms) > 0 {
		fx.joinGoroutines(st, args.terms[0])
	}
	if !fc.NoReturn {
		fx.vacuityStep(st, fr, ordName, vacPre)
	}
	k(st, results)
}

func variantSuffix(fc *FuncContract) string {
	if fc.Variant != "" {
		return " [" + fc.Variant + "]"
	}
	return ""
}

// havocTarget gives a modifies target an arbitrary new value.
func (fx *FnExec) havocTarget(st *State, env *evalEnv, m Expr) {
	switch x := m.(type) {
	case *EField:
		if hv, ok := fx.wholeFieldTarget(x, func(n string) bool { _, is := env.vars[n]; return is }, env.pkg); ok {
			st.heapSet(hv.name, hv.sort, fx.freshConst("mod."+x.Name, hv.sort))
			return
		}
		b := env.eval(x.X)
		pt, ok := derefType(b.typ)
		if !ok {
			evalFail("modifies %s: not a pointer", m)
		}
		stt := pt.Underlying().(*types.Struct)
		_, f := findField(stt, x.Name)
		if f == nil {
			evalFail("modifies %s: no such field", m)
		}
		fs := fx.sortOf(f.Type())
		hn := heapNameForField(pt, f.Name())
		h := st.heapGet(hn, arrOf(fs))
		nv := fx.freshConst("mod."+f.Name(), fs)
		st.heapSet(hn, arrOf(fs), "(store "+h+" "+b.t+" "+nv+")")
		st.assumeWF(nv, f.Type())
		return
	case *EUnary:
		if x.Op == "*" {
			b := env.eval(x.X)
			if b.lv != nil {
				nv := fx.freshConst("mod.deref", b.lv.elemSort)
				st.storeLV(b.lv, nv)
				st.assumeWF(nv, b.lv.typ)
				return
			}
			if pt, ok := derefType(b.typ); ok {
				srt := fx.sortOf(pt)
				lv := &LValue{kind: lvHeap, heap: "Cell." + sanitize(srt), heapSort: arrOf(srt), idx: b.t, elemSort: srt, typ: pt}
				nv := fx.freshConst("mod.deref", srt)
				st.storeLV(lv, nv)
				st.assumeWF(nv, pt)
				return
			}
			evalFail("modifies %s: cannot resolve target", m)
		}
	case *ECall:
		switch x.Fn {
		case "pointees":
			// every object reachable in one step from the elements/values of x:
			// summarised as "any object that existed at the caller's entry"
			st.pointeeLoop = true
			for _, name := range sortedTermKeys(st.heap) {
				srt := fx.heapSorts[name]
				if !realRefHeap(name, srt) {
					continue
				}
				nv := fx.freshConst(name+"@ptees", srt)
				e := fx.entryAlloc
				st.assume(fmt.Sprintf("(forall ((q.r Int)) (! (=> (or (> q.r %s) (<= q.r (- (* (+ %s 1) 1024)))) (= (select %s q.r) (select %s q.r))) :pattern ((select %s q.r))))", e, e, nv, st.heap[name], nv))
				st.heap[name] = nv
			}
			return
		case "pointee":
			// pointee(p): the object p points to (one level), whatever its type
			v := env.eval(x.Args[0])
			if v.lv != nil {
				nv := fx.freshConst("mod.pointee", v.lv.elemSort)
				st.storeLV(v.lv, nv)
				// its type invariant is assumed once the callee's allocations are accounted for
				fx.pendingWF = append(fx.pendingWF, pendingWF{nv, v.lv.typ})
				return
			}
			idx := v.t
			if v.sort == "Iface" {
				idx = "(ival " + v.t + ")"
			}
			if fx.curSite != nil && fx.curFrame != nil && fx.inLoopBody(fx.curFrame.fn, fx.curSite) {
				// the loop summary assumed that only objects which existed at
				// function entry are written this way
				e := fx.entryAlloc
				fx.emit(st, fx.curFrame, "pointee-preexisting", fx.ord(fx.curFrame.fn, fx.curSite, ""), "(and (<= "+idx+" "+e+") (> "+idx+" (- (* (+ "+e+" 1) 1024))))", nil, "")
				// ... and that they stay within the function's own frame (which is
				// what lets every heap variable keep its frame across the loop)
				if fal := fx.topFrameAllowed(st); fal != nil {
					var alts []string
					if any := fal["*"]; any != nil {
						for _, ix := range any.idx {
							alts = append(alts, "(= "+idx+" "+ix+")")
						}
						for _, set := range any.sets {
							alts = append(alts, strings.ReplaceAll(set, "q.f", idx))
						}
					}
					goal := "false"
					if len(alts) > 0 {
						goal = "(or " + strings.Join(alts, " ") + " false)"
					}
					fx.emit(st, fx.curFrame, "pointee-in-frame", fx.ord(fx.curFrame.fn, fx.curSite, ""), goal, nil, "")
				}
			}
			st.pointees = append(append([]Term(nil), st.pointees...), idx)
			for _, name := range sortedTermKeys(st.heap) {
				st.havocAt(name, idx)
			}
			return
		case "map":
			mv := env.eval(x.Args[0])
			ks, vs, _ := env.mapSorts(mv)
			for _, hv := range []heapVarRef{{mapInName(ks, vs), "(Array Int (Array " + ks + " Bool))"}, {mapValName(ks, vs), "(Array Int (Array " + ks + " " + vs + "))"}, {"MapLen", arrOf("Int")}} {
				h := st.heapGet(hv.name, hv.sort)
				nv := fx.freshConst("mod.map", arrayElemSort(hv.sort))
				st.heapSet(hv.name, hv.sort, "(store "+h+" "+mv.t+" "+nv+")")
				if hv.name == "MapLen" {
					st.assume("(>= " + nv + " 0)")
				}

			}
			return
		case "mem":
			sv := env.eval(x.Args[0])
			es, _ := env.elemOf(sv.typ)
			mn, ms := "Mem."+sanitize(es), "(Array Int "+arrOf(es)+")"
			h := st.heapGet(mn, ms)
			nv := fx.freshConst("mod.mem", arrOf(es))
			st.heapSet(mn, ms, "(store "+h+" (sptr "+sv.t+") "+nv+")")
			return
		}
		if g, ok := fx.P.Specs.Ghosts[x.Fn]; ok {
			full := fx.ghostSort(g)
			hn := "ghost." + x.Fn
			var idx []Term
			for _, a := range x.Args {
				idx = append(idx, env.eval(a).t)
			}
			rs, _ := env.resolveType(g.Ret)
			nv := fx.freshConst("mod."+x.Fn, rs)
			st.heapSet(hn, full, nestedStore(st.heapGet(hn, full), idx, nv))
			return
		}
	case *EIdent:
		if g, ok := fx.P.Specs.Ghosts[x.Name]; ok {
			full := fx.ghostSort(g)
			st.heapSet("ghost."+x.Name, full, fx.freshConst("mod."+x.Name, full))
			return
		}
		if v, ok := env.vars[x.Name]; ok && v.cell && v.lv != nil {
			nv := fx.freshConst("mod."+x.Name, v.lv.elemSort)
			st.storeLV(v.lv, nv)
			st.assumeWF(nv, v.lv.typ)
			return
		}
	}
	evalFail("unsupported modifies target %s", m)
}

func nestedStore(arr Term, idx []Term, v Term) Term {
	if len(idx) == 0 {
		return v
	}
	if len(idx) == 1 {
		return "(store " + arr + " " + idx[0] + " " + v + ")"
	}
	inner := nestedStore("(select "+arr+" "+idx[0]+")", idx[1:], v)
	return "(store " + arr + " " + idx[0] + " " + inner + ")"
}

// assignGhost sets a ghost location to a value.
func (fx *FnExec) assignGhost(st *State, env *evalEnv, target Expr, v Term) {
	switch x := target.(type) {
	case *ECall:
		if g, ok := fx.P.Specs.Ghosts[x.Fn]; ok {
			full := fx.ghostSort(g)
			hn := "ghost." + x.Fn
			var idx []Term
			for _, a := range x.Args {
				idx = append(idx, env.eval(a).t)
			}
			st.heapSet(hn, full, nestedStore(st.heapGet(hn, full), idx, v))
			return
		}
	case *EIdent:
		if g, ok := fx.P.Specs.Ghosts[x.Name]; ok {
			st.heapSet("ghost."+x.Name, fx.ghostSort(g), v)
			return
		}
	}
	evalFail("not a ghost location: %s", target)
}

// ---- builtins ----

func (fx *FnExec) doBuiltin(st *State, fr *frame, x *ssa.Call, b *ssa.Builtin) {
	cc := x.Common()
	fx.ghostSets(st, fr, x)
	{
		ca := &callArgs{}
		for _, a := range cc.Args {
			ca.terms = append(ca.terms, st.val(a))
			ca.vals = append(ca.vals, a)
			ca.lvs = append(ca.lvs, nil)
		}
		fx.siteAsserts(st, fr, cc, ca, x)
	}
	arg := func(i int) Term { return st.val(cc.Args[i]) }
	switch b.Name() {
	case "len":
		a := arg(0)
		switch u := cc.Args[0].Type().Underlying().(type) {
		case *types.Slice:
			st.vals[x] = "(slen " + a + ")"
		case *types.Basic:
			st.vals[x] = "(strlen " + a + ")"
		case *types.Map:
			fx.locksetMap(st, fr, cc.Args[0], x)
			ks, vs := fx.mapKV(u)
			l := "(select " + st.heapGet("MapLen", arrOf("Int")) + " " + a + ")"
			inH := st.heapGet(mapInName(ks, vs), "(Array Int (Array "+ks+" Bool))")
			st.assume("(>= " + l + " 0)")
			st.assume("(=> (= " + a + " 0) (= " + l + " 0))")
			st.assume("(=> (= " + l + " 0) (forall ((q.k " + ks + ")) (not (select (select " + inH + " " + a + ") q.k))))")
			st.assume("(=> (forall ((q.k " + ks + ")) (not (select (select " + inH + " " + a + ") q.k))) (= " + l + " 0))")
			st.vals[x] = l
		case *types.Chan:
			st.vals[x] = st.ghostLoad("chanlen", "Int", a)
		case *types.Pointer:
			st.vals[x] = fmt.Sprint(u.Elem().Underlying().(*types.Array).Len())
		default:
			panic(unsupported("len of " + typeName(cc.Args[0].Type())))
		}
	case "cap":
		a := arg(0)
		switch cc.Args[0].Type().Underlying().(type) {
		case *types.Slice:
			st.vals[x] = "(scap " + a + ")"
		case *types.Chan:
			st.vals[x] = st.ghostLoad("chancap", "Int", a)
		default:
			panic(unsupported("cap"))
		}
	case "append":
		fx.doAppend(st, fr, x)
	case "delete":
		m, k := arg(0), arg(1)
		mt := cc.Args[0].Type().Underlying().(*types.Map)
		fx.locksetMap(st, fr, cc.Args[0], x)
		{
			ks, vs := fx.mapKV(mt)
			st.mapDelete(m, ks, vs, k)
		}
	case "close":
		c := arg(0)
		name := fx.ord(fr.fn, x, "call.close")
		fx.emit(st, fr, "chan-open", name, "(and (not (= "+c+" 0)) (not "+st.ghostLoad("chanclosed", "Bool", c)+"))", nil, "")
		st.ghostStore("chanclosed", "Bool", c, "true")
	case "copy":
		dst, src := arg(0), arg(1)
		es := fx.elemSort(cc.Args[0].Type().Underlying().(*types.Slice).Elem())
		n := fx.freshConst("copy.n", "Int")
		srcLen := "(slen " + src + ")"
		srcAt := func(i string) string {
			return "(select " + fx.winOf(es, "(select "+st.heapGet("Mem."+sanitize(es), "(Array Int "+arrOf(es)+")")+" (sptr "+src+"))", "(soff "+src+")") + " " + i + ")"
		}
		if fx.sortOf(cc.Args[1].Type()) == "Str" {
			srcLen = "(strlen " + src + ")"
			srcAt = func(i string) string { return "(strat " + src + " " + i + ")" }
		}
		st.assume("(= " + n + " (ite (< (slen " + dst + ") " + srcLen + ") (slen " + dst + ") " + srcLen + "))")
		mn, ms := "Mem."+sanitize(es), "(Array Int "+arrOf(es)+")"
		h := st.heapGet(mn, ms)
		na := fx.freshConst("copy.arr", arrOf(es))
		oldArr := "(select " + h + " (sptr " + dst + "))"
		st.assume(fmt.Sprintf("(forall ((q.i Int)) (! (= (select %s q.i) (ite (and (<= (soff %s) q.i) (< q.i (+ (soff %s) %s))) %s (select %s q.i))) :pattern ((select %s q.i))))",
			na, dst, dst, n, srcAt("(- q.i (soff "+dst+"))"), oldArr, na))
		st.heapSet(mn, ms, "(store "+h+" (sptr "+dst+") "+na+")")
		st.vals[x] = n
	case "print", "println":
	case "min", "max":
		a, bb := arg(0), arg(1)
		op := "<"
		if b.Name() == "max" {
			op = ">"
		}
		st.vals[x] = "(ite (" + op + " " + a + " " + bb + ") " + a + " " + bb + ")"
	case "ssa:wrapnilchk":
		a := arg(0)
		fx.nonnil(st, fr, cc.Args[0], a, x, fx.ord(fr.fn, x, "call.wrapnilchk"))
		st.vals[x] = a
	case "recover":
		panic(unsupported("recover"))
	default:
		panic(unsupported("builtin " + b.Name()))
	}
}

func (fx *FnExec) doAppend(st *State, fr *frame, x *ssa.Call) {
	cc := x.Common()
	s := st.val(cc.Args[0])
	t := st.val(cc.Args[1])
	et := x.Type().Underlying().(*types.Slice).Elem()
	es := fx.elemSort(et)
	mn, ms := "Mem."+sanitize(es), "(Array Int "+arrOf(es)+")"
	mem := st.heapGet(mn, ms)
	ls := "(slen " + s + ")"
	r := st.freshRef("append")
	arr0 := fx.freshConst("append.arr", arrOf(es))
	swin := fx.winOf(es, "(select "+mem+" (sptr "+s+"))", "(soff "+s+")")
	st.assume(fmt.Sprintf("(forall ((q.i Int)) (! (=> (and (<= 0 q.i) (< q.i %s)) (= (select %s q.i) (select %s q.i))) :pattern ((select %s q.i))))", ls, arr0, swin, arr0))
	var arr, lt Term
	single := false
	if sl, ok := cc.Args[1].(*ssa.Slice); ok && sl.Low == nil && sl.High == nil {
		if al, ok := sl.X.(*ssa.Alloc); ok {
			if at, ok := al.Type().Underlying().(*types.Pointer).Elem().Underlying().(*types.Array); ok && at.Len() == 1 {
				single = true
			}
		}
	}
	if fx.sortOf(cc.Args[1].Type()) == "Str" {
		lt = "(strlen " + t + ")"
		arr = fx.freshConst("append.arr2", arrOf(es))
		st.assume(fmt.Sprintf("(forall ((q.i Int)) (! (= (select %s q.i) (ite (and (<= %s q.i) (< q.i (+ %s %s))) (strat %s (- q.i %s)) (select %s q.i))) :pattern ((select %s q.i))))", arr, ls, ls, lt, t, ls, arr0, arr))
	} else if single {
		lt = "1"
		elem := "(select (select " + mem + " (sptr " + t + ")) (soff " + t + "))"
		arr = "(store " + arr0 + " " + ls + " " + elem + ")"
	} else {
		lt = "(slen " + t + ")"
		arr = fx.freshConst("append.arr2", arrOf(es))
		twin := fx.winOf(es, "(select "+mem+" (sptr "+t+"))", "(soff "+t+")")
		st.assume(fmt.Sprintf("(forall ((q.i Int)) (! (= (select %s q.i) (ite (and (<= %s q.i) (< q.i (+ %s %s))) (select %s (- q.i %s)) (select %s q.i))) :pattern ((select %s q.i))))", arr, ls, ls, lt, twin, ls, arr0, arr))
	}
	cp := fx.freshConst("append.cap", "Int")
	st.assume("(>= " + cp + " (+ " + ls + " " + lt + "))")
	// Go appends in place when the capacity suffices: the elements land in the
	// argument's own backing array (visible through every alias of it);
	// otherwise a new array is allocated.
	fits := fx.freshConst("append.fits", "Bool")
	if localBuilt(cc.Args[0], map[ssa.Value]bool{}) {
		// The slice was built by this function (nil, make, append): whether the
		// elements land in its own array or in a new one cannot be observed
		// through any other reference, except by a local alias of the same
		// array (not modelled); the new-array view keeps loop summaries simple.
		st.assume("(= " + fits + " false)")
		if st.appendCase == 0 {
			st.appendCase = 2
			defer func() { st.appendCase = 0 }()
		}
	} else {
		st.assume("(= " + fits + " (and (not (= (sptr " + s + ") 0)) (> " + lt + " 0) (<= (+ " + ls + " " + lt + ") (scap " + s + "))))")
	}
	base := "(select " + mem + " (sptr " + s + "))"
	start := "(+ (soff " + s + ") " + ls + ")"
	var arrI Term
	switch {
	case single:
		elem := "(select (select " + mem + " (sptr " + t + ")) (soff " + t + "))"
		arrI = "(store " + base + " " + start + " " + elem + ")"
	default:
		arrI = fx.freshConst("append.inplace", arrOf(es))
		var src string
		if fx.sortOf(cc.Args[1].Type()) == "Str" {
			src = "(strat " + t + " (- q.i " + start + "))"
		} else {
			twin := fx.winOf(es, "(select "+mem+" (sptr "+t+"))", "(soff "+t+")")
			src = "(select " + twin + " (- q.i " + start + "))"
		}
		st.assume(fmt.Sprintf("(forall ((q.i Int)) (! (= (select %s q.i) (ite (and (<= %s q.i) (< q.i (+ %s %s))) %s (select %s q.i))) :pattern ((select %s q.i))))", arrI, start, start, lt, src, base, arrI))
	}
	tp := "(ite " + fits + " (sptr " + s + ") " + r + ")"
	var res string
	switch st.appendCase {
	case 1:
		st.assume(fits)
		st.heapSet(mn, ms, "(store "+mem+" (sptr "+s+") "+arrI+")")
		res = fmt.Sprintf("(mkslice (sptr %s) (soff %s) (+ %s %s) (scap %s))", s, s, ls, lt, s)
	case 2:
		st.assume("(not " + fits + ")") // redundant for a locally built slice
		st.heapSet(mn, ms, "(store "+mem+" "+r+" "+arr+")")
		res = fmt.Sprintf("(mkslice %s 0 (+ %s %s) %s)", r, ls, lt, cp)
	default:
		st.heapSet(mn, ms, "(store "+mem+" "+tp+" (ite "+fits+" "+arrI+" "+arr+"))")
		res = fmt.Sprintf("(ite %s (mkslice (sptr %s) (soff %s) (+ %s %s) (scap %s)) (mkslice %s 0 (+ %s %s) %s))", fits, s, s, ls, lt, s, r, ls, lt, cp)
	}
	if !single {
		res = "(ite (= " + lt + " 0) " + s + " " + res + ")"
	}
	st.vals[x] = res
}

// localBuilt: the slice value is nil, freshly made, or built from such by
// append/reslice in this function - its backing array, if any, was allocated by
// this function.
func localBuilt(v ssa.Value, seen map[ssa.Value]bool) bool {
	if seen[v] {
		return true
	}
	seen[v] = true
	switch x := v.(type) {
	case *ssa.Const:
		return x.IsNil()
	case *ssa.MakeSlice:
		return true
	case *ssa.Slice:
		if _, ok := x.X.(*ssa.Alloc); ok {
			return true
		}
		return localBuilt(x.X, seen)
	case *ssa.Phi:
		for _, e := range x.Edges {
			if !localBuilt(e, seen) {
				return false
			}
		}
		return true
	case *ssa.Call:
		if b, ok := x.Common().Value.(*ssa.Builtin); ok && b.Name() == "append" {
			return localBuilt(x.Common().Args[0], seen)
		}
	case *ssa.ChangeType:
		return localBuilt(x.X, seen)
	case *ssa.UnOp:
		// a local variable kept in a cell (captured by a closure): local-built
		// if everything ever stored into the cell is
		if x.Op != token.MUL {
			return false
		}
		cell, root := cellOf(x.X)
		if cell == nil {
			return false
		}
		ok := true
		var scan func(fn *ssa.Function, addr ssa.Value)
		scan = func(fn *ssa.Function, addr ssa.Value) {
			for _, b := range fn.Blocks {
				for _, ins := range b.Instrs {
					switch y := ins.(type) {
					case *ssa.Store:
						if y.Addr == addr && !localBuilt(y.Val, seen) {
							ok = false
						}
					case *ssa.MakeClosure:
						cf := y.Fn.(*ssa.Function)
						for i, bnd := range y.Bindings {
							if bnd == addr && i < len(cf.FreeVars) {
								scan(cf, cf.FreeVars[i])
							}
						}
					case *ssa.Call:
						// the cell's address escapes to a callee: give up
						for _, a := range y.Common().Args {
							if a == addr {
								ok = false
							}
						}
					}
				}
			}
		}
		scan(root, cell)
		return ok
	}
	return false
}

// cellOf: addr is a local variable's cell (an Alloc, possibly seen through the
// free variables of nested closures); returns the Alloc and its function.
func cellOf(addr ssa.Value) (ssa.Value, *ssa.Function) {
	switch a := addr.(type) {
	case *ssa.Alloc:
		if _, isSlice := a.Type().Underlying().(*types.Pointer).Elem().Underlying().(*types.Slice); isSlice {
			return a, a.Parent()
		}
	case *ssa.FreeVar:
		fn := a.Parent()
		parent := fn.Parent()
		if parent == nil {
			return nil, nil
		}
		idx := -1
		for i, fv := range fn.FreeVars {
			if fv == a {
				idx = i
			}
		}
		for _, b := range parent.Blocks {
			for _, ins := range b.Instrs {
				if mc, ok := ins.(*ssa.MakeClosure); ok && mc.Fn == fn && idx >= 0 && idx < len(mc.Bindings) {
					return cellOf(mc.Bindings[idx])
				}
			}
		}
	}
	return nil, nil
}


// iterateCallback: the callee invokes a callback (a closure known on this path)
// an arbitrary number of times. Loop-cut semantics with the closure's contract
// as the invariant: requires is established here, everything the closure body
// may modify is havocked, requires is assumed; one symbolic iteration is
// executed on a forked path and must re-establish requires (its ensures).
func (fx *FnExec) iterateCallback(st *State, fr *frame, tgt callTarget, args *callArgs, site ssa.Instruction, ordName string) {
	idx := -1
	if tgt.fn != nil {
		for i, p := range tgt.fn.Params {
			if p.Name() == tgt.fc.Iterates {
				idx = i
			}
		}
	}
	if idx < 0 || idx >= len(args.terms) {
		panic(evalErr{"iterates: no parameter " + tgt.fc.Iterates})
	}
	ci := st.clos[args.terms[idx]]
	if ci == nil {
		panic(unsupported("iterates: callback is not a closure known on this path"))
	}
	ckey := fnKey(ci.fn)
	var cfc *FuncContract
	if cs := fx.P.Specs.Funcs[ckey]; len(cs) > 0 {
		cfc = cs[0]
		cfc.Bound = true
	}
	ctgt := callTarget{fn: ci.fn, fc: cfc, key: ckey, closure: ci}
	iterVals := func(s *State) *callArgs {
		ca := &callArgs{}
		vars := map[string]cval{}
		for i, p := range ci.fn.Params {
			v := fx.freshConst("it."+p.Name(), fx.sortOf(p.Type()))
			s.assumeWF(v, p.Type())
			ca.terms = append(ca.terms, v)
			ca.vals = append(ca.vals, p)
			ca.lvs = append(ca.lvs, nil)
			vars[fmt.Sprintf("arg%d", i)] = cval{t: v, typ: p.Type(), sort: fx.sortOf(p.Type())}
		}
		for _, c := range tgt.fc.IterAssume {
			env := &evalEnv{fx: fx, st: s, vars: vars}
			v, err := env.safeEval(c.Expr)
			if err != nil {
				panic(fmt.Sprintf("%s:%d: %v", c.File, c.Line, err))
			}
			s.assume(v.t)
		}
		return ca
	}
	mkEnv := func(s *State) *evalEnv {
		// callback parameters are arbitrary (within iterassume) per iteration
		return fx.contractEnv(s, ctgt, ci.fn.Signature, nil, iterVals(s))
	}
	// establish
	if cfc != nil {
		env := mkEnv(st)
		for i, c := range cfc.Requires {
			v, err := env.safeEval(c.Expr)
			if err != nil {
				panic(fmt.Sprintf("%s:%d: %v", c.File, c.Line, err))
			}
			fx.emit(st, fr, "inv-establish", ordName+"/callback/"+clauseName(c, i), v.t, c.Props, c.Src)
		}
	}
	// havoc what the callback may modify: its declared modifies (then checked
	// against one symbolic iteration below), or else everything its body touches
	declared := cfc != nil && len(cfc.Modifies) > 0
	allocAt := st.alloc
	if declared {
		env := mkEnv(st)
		pre := *env
		pre.old = st.snapshotHeap()
		pre.inOld = true
		for _, m := range cfc.Modifies {
			fx.havocTarget(st, &pre, m)
		}
		// objects allocated by earlier iterations
		ms := &modScan{fx: fx, mods: map[string]modInfo{}, inLoop: map[ssa.Value]bool{}, visited: map[*ssa.Function]bool{ci.fn: true}}
		for _, b := range ci.fn.Blocks {
			for _, ins := range b.Instrs {
				switch v := ins.(type) {
				case *ssa.Alloc, *ssa.MakeSlice, *ssa.MakeMap, *ssa.MakeChan:
					ms.inLoop[v.(ssa.Value)] = true
				}
			}
		}
		for _, b := range ci.fn.Blocks {
			for _, ins := range b.Instrs {
				ms.scanInstr(ci.fn, ins, false)
			}
		}
		for _, name := range sortedKeys(ms.mods) {
			mi := ms.mods[name]
			if !mi.hasFresh || !strings.HasPrefix(mi.sort, "(Array Int") {
				continue
			}
			cur := st.heapGet(name, mi.sort)
			nv := fx.freshConst(name+"@iter", mi.sort)
			st.assume(fmt.Sprintf("(forall ((q.r Int)) (! (=> (<= q.r %s) (= (select %s q.r) (select %s q.r))) :pattern ((select %s q.r))))", allocAt, nv, cur, nv))
			st.heapSet(name, mi.sort, nv)
		}
	} else {
		ms := &modScan{fx: fx, mods: map[string]modInfo{}, inLoop: map[ssa.Value]bool{}, visited: map[*ssa.Function]bool{ci.fn: true}}
		for _, b := range ci.fn.Blocks {
			for _, ins := range b.Instrs {
				switch v := ins.(type) {
				case *ssa.Alloc, *ssa.MakeSlice, *ssa.MakeMap, *ssa.MakeChan:
					ms.inLoop[v.(ssa.Value)] = true
				}
			}
		}
		for _, b := range ci.fn.Blocks {
			for _, ins := range b.Instrs {
				ms.scanInstr(ci.fn, ins, false)
			}
		}
		for _, name := range sortedKeys(ms.mods) {
			mi := ms.mods[name]
			old := st.heapGet(name, mi.sort)
			nv := fx.freshConst(name+"@iter", mi.sort)
			st.heapSet(name, mi.sort, nv)
			if mi.freshOnly && strings.HasPrefix(mi.sort, "(Array Int") {
				st.assume(fmt.Sprintf("(forall ((q.r Int)) (! (=> (<= q.r %s) (= (select %s q.r) (select %s q.r))) :pattern ((select %s q.r))))", allocAt, nv, old, nv))
			}
		}
	}
	na := fx.freshConst("alloc@iter", "Int")
	st.bumpAlloc(na)
	if cfc != nil {
		env := mkEnv(st)
		for _, c := range cfc.Requires {
			v, err := env.safeEval(c.Expr)
			if err != nil {
				panic(fmt.Sprintf("%s:%d: %v", c.File, c.Line, err))
			}
			st.assume(v.t)
		}
	}
	// one symbolic iteration on a forked path
	s2 := st.clone()
	ca := iterVals(s2)
	itgt := ctgt
	itgt.kind = ctInline
	fx.inlined[ckey] = true
	iterSnap := s2.snapshotHeap()
	iterAlloc := s2.alloc
	fx.inline(s2, fr, itgt, ca, site, func(s3 *State, results []Term) {
		if declared {
			// the iteration stayed within the callback's declared frame
			env := fx.contractEnv(s3, ctgt, ci.fn.Signature, nil, ca)
			fx.frameCheck(s3, fr, env, ordName+"/callback", cfc.Modifies, iterSnap, iterAlloc, "frame")
		}
		if cfc != nil {
			env := mkEnv(s3)
			for i, c := range cfc.Requires {
				v, err := env.safeEval(c.Expr)
				if err != nil {
					panic(fmt.Sprintf("%s:%d: %v", c.File, c.Line, err))
				}
				fx.emit(s3, fr, "inv-preserve", ordName+"/callback/"+clauseName(c, i), v.t, c.Props, c.Src)
			}
		}
		fx.paths++
	})
}


// joinGoroutines: Wait on a WaitGroup returns only after every goroutine that
// was handed one of its debts has paid it (Done happens-before Wait returns).
// What those goroutines may have written is havocked, and their postconditions
// are assumed. Loops that spawn are cut, so a join covers the goroutines
// spawned on this path only; goroutines of earlier iterations are covered by
// the loop havoc of what they modify.
func (fx *FnExec) joinGoroutines(st *State, wg Term) {
	var rest []*pendingJoin
	for _, j := range st.joins {
		if j.wg != wg {
			rest = append(rest, j)
			continue
		}
		fc := j.tgt.fc
		env := fx.contractEnv(st, j.tgt, j.sig, nil, j.args)
		old := st.snapshotHeap()
		pre := *env
		pre.old = old
		pre.inOld = true
		for _, m := range fc.Modifies {
			if gc, ok := m.(*ECall); ok {
				if g, isG := fx.P.Specs.Ghosts[gc.Fn]; isG && g.ThreadLocal {
					continue // the other thread's own resources
				}
			}
			if id, ok := m.(*EIdent); ok {
				if g, isG := fx.P.Specs.Ghosts[id.Name]; isG && g.ThreadLocal {
					continue
				}
			}
			fx.havocTarget(st, &pre, m)
		}
		env.old = old
		for _, c := range fc.Ensures {
			if mentionsThreadLocal(fx, c.Expr) {
				continue
			}
			v, err := env.safeEval(c.Expr)
			if err != nil {
				continue
			}
			st.assume(v.t)
		}
	}
	st.joins = rest
}

func mentionsThreadLocal(fx *FnExec, e Expr) bool {
	found := false
	var walk func(Expr)
	walk = func(e Expr) {
		switch x := e.(type) {
		case *EIdent:
			if g, ok := fx.P.Specs.Ghosts[x.Name]; ok && g.ThreadLocal {
				found = true
			}
		case *ECall:
			if g, ok := fx.P.Specs.Ghosts[x.Fn]; ok && g.ThreadLocal {
				found = true
			}
			for _, a := range x.Args {
				walk(a)
			}
		case *EUnary:
			walk(x.X)
		case *EBinary:
			walk(x.X)
			walk(x.Y)
		case *EField:
			walk(x.X)
		case *EIndex:
			walk(x.X)
			walk(x.I)
		case *ECond:
			walk(x.C)
			walk(x.A)
			walk(x.B)
		case *EQuant:
			walk(x.Body)
		}
	}
	walk(e)
	return found
}
