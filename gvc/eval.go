package main

// Evaluation of contract expressions to SMT terms in a symbolic state.

import (
	"fmt"
	"go/constant"
	"go/types"
	"strconv"
	"strings"

	"golang.org/x/tools/go/ssa"
)

type cval struct {
	t    Term
	typ  types.Type // may be nil (ghost / spec values)
	sort string
	lv   *LValue // when the value denotes a location (pointer params bound to lvalues)
	cell bool    // t is the CONTENT of the captured-variable cell lv (auto-dereferenced)
}

type evalEnv struct {
	fx    *FnExec
	st    *State
	old   map[string]Term // heap snapshot for old(); nil => old() == current
	vars  map[string]cval
	pkg   *types.Package
	inOld bool
	iters map[string]*iterInfo // loop ordinal name -> iterator (for visited())
	gvars map[string]string    // ghost locals of the enclosing function: name -> sort
	// allocation watermark at the entry of the function the contract belongs to
	// ("" => the function under verification): at a call site, the watermark
	// just before the call, so isnew(x) means "allocated by this call"
	entryAlloc Term
	// non-nil while a callee's ensures are evaluated at a call site: called()
	// and callres() speak about the callee's own call sites, which the caller
	// cannot see - they denote unknown (but fixed) values there
	calleeView map[string]Term
}

func (env *evalEnv) entryMark() Term {
	if env.entryAlloc != "" {
		return env.entryAlloc
	}
	return env.fx.entryAlloc
}

type evalErr struct{ msg string }

func (e evalErr) Error() string { return e.msg }

func evalFail(format string, a ...any) { panic(evalErr{fmt.Sprintf(format, a...)}) }

func (env *evalEnv) heapGet(name, srt string) Term {
	if env.inOld && env.old != nil {
		if t, ok := env.old[name]; ok {
			return t
		}
		return env.st.heapInit(name, srt)
	}
	return env.st.heapGet(name, srt)
}

func (env *evalEnv) sub(extra map[string]cval) *evalEnv {
	n := *env
	n.vars = map[string]cval{}
	for k, v := range env.vars {
		n.vars[k] = v
	}
	for k, v := range extra {
		n.vars[k] = v
	}
	return &n
}

// sortFromName resolves a sort or Go type name used in quantifiers / decls.
func (env *evalEnv) resolveType(name string) (string, types.Type) {
	switch name {
	case "Int", "Ref":
		return "Int", nil
	case "Bool":
		return "Bool", nil
	case "Str":
		return "Str", types.Typ[types.String]
	case "Slice":
		return "Slice", nil
	case "Iface":
		return "Iface", nil
	case "F64":
		return "F64", nil
	case "int":
		return "Int", types.Typ[types.Int]
	case "string":
		return "Str", types.Typ[types.String]
	case "bool":
		return "Bool", types.Typ[types.Bool]
	case "byte":
		return "Int", types.Typ[types.Uint8]
	case "int64":
		return "Int", types.Typ[types.Int64]
	case "error":
		return "Iface", types.Universe.Lookup("error").Type()
	case "any":
		return "Iface", types.Universe.Lookup("any").Type()
	case "bytes":
		return "Slice", types.NewSlice(types.Typ[types.Uint8])
	case "ArrInt":
		return "(Array Int Int)", nil
	case "ArrSlice":
		return "(Array Int Slice)", nil
	case "ArrIface":
		return "(Array Int Iface)", nil
	}
	if strings.HasPrefix(name, "(Array") {
		return name, nil
	}
	if strings.HasPrefix(name, "arr.") {
		// arr.T: a logical array of T values indexed by Int
		_, et := env.resolveType(name[4:])
		if et == nil {
			evalFail("cannot resolve array element type %q", name)
		}
		return arrOf(env.fx.elemSort(et)), types.NewArray(et, 0)
	}
	if obj := types.Universe.Lookup(name); obj != nil {
		if tn, ok := obj.(*types.TypeName); ok {
			return env.fx.sortOf(tn.Type()), tn.Type()
		}
	}
	if strings.HasPrefix(name, "map[") {
		depth := 0
		for i := 3; i < len(name); i++ {
			if name[i] == '[' {
				depth++
			} else if name[i] == ']' {
				depth--
				if depth == 0 {
					_, kt := env.resolveType(name[4:i])
					_, vt := env.resolveType(name[i+1:])
					if kt == nil || vt == nil {
						evalFail("cannot resolve map type %q", name)
					}
					return "Int", types.NewMap(kt, vt)
				}
			}
		}
	}
	ptr := false
	n := name
	if strings.HasPrefix(n, "*") {
		ptr = true
		n = n[1:]
		if strings.HasPrefix(n, "*") || strings.HasPrefix(n, "[]") || strings.HasPrefix(n, "map[") || types.Universe.Lookup(n) != nil {
			_, inner := env.resolveType(n)
			if inner == nil {
				evalFail("cannot resolve %q", name)
			}
			return "Int", types.NewPointer(inner)
		}
	}
	if strings.HasPrefix(n, "[]") {
		_, et := env.resolveType(n[2:])
		if et == nil {
			evalFail("cannot resolve slice element type %q", name)
		}
		return "Slice", types.NewSlice(et)
	}
	var obj types.Object
	if i := strings.LastIndex(n, "."); i >= 0 {
		p := env.fx.P.lookupPkg(n[:i])
		if p == nil {
			evalFail("unknown package in type %q", name)
		}
		obj = p.Scope().Lookup(n[i+1:])
	} else if env.pkg != nil {
		obj = env.pkg.Scope().Lookup(n)
	}
	tn, ok := obj.(*types.TypeName)
	if !ok {
		evalFail("unknown type %q", name)
	}
	var t types.Type = tn.Type()
	if ptr {
		t = types.NewPointer(t)
	}
	return env.fx.sortOf(t), t
}

func (env *evalEnv) eval(e Expr) cval {
	fx := env.fx
	switch x := e.(type) {
	case *EInt:
		v, err := strconv.ParseInt(x.V, 0, 64)
		if err != nil {
			// big literal
			return cval{t: x.V, sort: "Int"}
		}
		return cval{t: intLit(v), sort: "Int"}
	case *EStr:
		return cval{t: fx.strLit(x.V), sort: "Str", typ: types.Typ[types.String]}
	case *EIdent:
		return env.evalIdent(x.Name)
	case *EUnary:
		switch x.Op {
		case "!":
			v := env.eval(x.X)
			return cval{t: "(not " + v.t + ")", sort: "Bool"}
		case "-":
			v := env.eval(x.X)
			return cval{t: "(- " + v.t + ")", sort: "Int"}
		case "*":
			v := env.eval(x.X)
			if v.lv != nil {
				if pt, ok := derefType(v.typ); ok && (fx.sortOf(pt) != fx.realSort(v.lv.elemSort) || (v.lv.typ != nil && !types.Identical(pt, v.lv.typ))) {
					// a view of the pointer at a type it does not have (a branch
					// guarded by typeis that cannot be taken): an arbitrary value
					srt := fx.sortOf(pt)
					return cval{t: fx.freshConst("mistyped", srt), sort: srt, typ: pt}
				}
				t := env.loadLV(v.lv)
				return cval{t: t, sort: v.lv.elemSort, typ: v.lv.typ}
			}
			if pt, ok := derefType(v.typ); ok {
				if _, isStruct := pt.Underlying().(*types.Struct); isStruct {
					evalFail("*%s: struct deref not supported in contracts", x.X)
				}
				srt := fx.sortOf(pt)
				h := env.heapGet("Cell."+sanitize(srt), arrOf(srt))
				return cval{t: "(select " + h + " " + v.t + ")", sort: srt, typ: pt}
			}
			evalFail("cannot dereference %s", x.X)
		}
	case *EBinary:
		return env.evalBinary(x)
	case *ECond:
		c := env.eval(x.C)
		a := env.eval(x.A)
		b := env.eval(x.B)
		a, b = env.unifyNil(a, b)
		return cval{t: "(ite " + c.t + " " + a.t + " " + b.t + ")", sort: a.sort, typ: a.typ}
	case *EField:
		return env.evalField(x)
	case *EIndex:
		b := env.eval(x.X)
		i := env.eval(x.I)
		switch {
		case b.sort == "Slice":
			es, et := env.elemOf(b.typ)
			mem := env.heapGet("Mem."+sanitize(es), "(Array Int "+arrOf(es)+")")
			arr := fx.winOf(es, fmt.Sprintf("(select %s (sptr %s))", mem, b.t), "(soff "+b.t+")")
			return cval{t: "(select " + arr + " " + i.t + ")", sort: fx.realSort(es), typ: et}
		case b.sort == "Str":
			return cval{t: "(strat " + b.t + " " + i.t + ")", sort: "Int", typ: types.Typ[types.Uint8]}
		case strings.HasPrefix(b.sort, "(Array "):
			es := arrayElemSort(b.sort)
			if at, ok := b.typ.(*types.Array); ok {
				return cval{t: "(select " + b.t + " " + i.t + ")", sort: fx.realSort(es), typ: at.Elem()}
			}
			return cval{t: "(select " + b.t + " " + i.t + ")", sort: es}
		}
		evalFail("cannot index %s (sort %s)", x.X, b.sort)
	case *EQuant:
		vars := map[string]cval{}
		var binders []string
		var ranges []string
		for _, v := range x.Vars {
			srt, typ := env.resolveType(v.Type)
			fx.fresh++
			name := fmt.Sprintf("q.%s.%d", v.Name, fx.fresh)
			vars[v.Name] = cval{t: name, sort: srt, typ: typ}
			binders = append(binders, fmt.Sprintf("(%s %s)", name, srt))
			if typ != nil {
				if lo, hi, _, ok := intRange(typ); ok && v.Type != "Int" && v.Type != "int" && v.Type != "int64" {
					ranges = append(ranges, fmt.Sprintf("(<= %s %s) (<= %s %s)", lo, name, name, hi))
				}
			}
		}
		body := env.sub(vars).eval(x.Body)
		q := "exists"
		bt := body.t
		if x.Forall {
			q = "forall"
			if len(ranges) > 0 {
				bt = "(=> (and " + strings.Join(ranges, " ") + ") " + bt + ")"
			}
		} else if len(ranges) > 0 {
			bt = "(and " + strings.Join(ranges, " ") + " " + bt + ")"
		}
		return cval{t: fmt.Sprintf("(%s (%s) %s)", q, strings.Join(binders, " "), bt), sort: "Bool"}
	case *ECall:
		return env.evalCall(x)
	}
	evalFail("cannot evaluate %s", e)
	return cval{}
}

func intLit(v int64) string {
	if v < 0 {
		return fmt.Sprintf("(- %d)", -v)
	}
	return strconv.FormatInt(v, 10)
}

func arrayElemSort(s string) string {
	// "(Array Int X)" -> X
	s = strings.TrimPrefix(s, "(Array ")
	s = strings.TrimSuffix(s, ")")
	// first token is index sort
	depth := 0
	for i := 0; i < len(s); i++ {
		switch s[i] {
		case '(':
			depth++
		case ')':
			depth--
		case ' ':
			if depth == 0 {
				return s[i+1:]
			}
		}
	}
	return s
}

func arrayIndexSort(s string) string {
	s = strings.TrimPrefix(s, "(Array ")
	depth := 0
	for i := 0; i < len(s); i++ {
		switch s[i] {
		case '(':
			depth++
		case ')':
			depth--
		case ' ':
			if depth == 0 {
				return s[:i]
			}
		}
	}
	return s
}

func derefType(t types.Type) (types.Type, bool) {
	if t == nil {
		return nil, false
	}
	if p, ok := t.Underlying().(*types.Pointer); ok {
		return p.Elem(), true
	}
	return nil, false
}

func (env *evalEnv) elemOf(t types.Type) (string, types.Type) {
	if t == nil {
		return "Int", nil
	}
	if s, ok := t.Underlying().(*types.Slice); ok {
		return env.fx.elemSort(s.Elem()), s.Elem()
	}
	evalFail("not a slice type: %s", t)
	return "", nil
}

func (env *evalEnv) evalIdent(name string) cval {
	fx := env.fx
	switch name {
	case "true":
		return cval{t: "true", sort: "Bool"}
	case "false":
		return cval{t: "false", sort: "Bool"}
	case "nil":
		return cval{t: "nil", sort: "nil"}
	}
	if v, ok := env.vars[name]; ok {
		return v
	}
	if env.gvars != nil {
		if srt, ok := env.gvars[name]; ok {
			rs, rt := env.resolveType(srt)
			return cval{t: env.heapGet("gv."+name, rs), sort: rs, typ: rt}
		}
	}
	// zero-arg ghost
	if g, ok := fx.P.Specs.Ghosts[name]; ok && len(g.Args) == 0 {
		srt, typ := env.resolveType(g.Ret)
		return cval{t: env.heapGet("ghost."+name, srt), sort: srt, typ: typ}
	}
	if s, ok := fx.P.Specs.SpecFns[name]; ok && len(s.Args) == 0 {
		srt, typ := env.resolveType(s.Ret)
		fx.declare("spec."+name, fmt.Sprintf("(declare-const spec.%s %s)", name, srt))
		return cval{t: "spec." + name, sort: srt, typ: typ}
	}
	// package-level object
	if env.pkg != nil {
		if obj := env.pkg.Scope().Lookup(name); obj != nil {
			return env.pkgObject(obj)
		}
	}
	evalFail("unknown identifier %q", name)
	return cval{}
}

func (env *evalEnv) pkgObject(obj types.Object) cval {
	fx := env.fx
	switch o := obj.(type) {
	case *types.Const:
		switch o.Val().Kind() {
		case constant.Int:
			v, _ := constant.Int64Val(o.Val())
			return cval{t: intLit(v), sort: "Int", typ: o.Type()}
		case constant.String:
			return cval{t: fx.strLit(constant.StringVal(o.Val())), sort: "Str", typ: o.Type()}
		case constant.Bool:
			return cval{t: strconv.FormatBool(constant.BoolVal(o.Val())), sort: "Bool", typ: o.Type()}
		}
	case *types.Var:
		srt := fx.sortOf(o.Type())
		return cval{t: fx.globalConst(o.Pkg().Path(), o.Name(), srt), sort: srt, typ: o.Type()}
	}
	evalFail("unsupported package object %s", obj)
	return cval{}
}

func (env *evalEnv) evalField(x *EField) cval {
	fx := env.fx
	// package-qualified name?
	if id, ok := x.X.(*EIdent); ok {
		if _, isVar := env.vars[id.Name]; !isVar {
			if p := fx.P.lookupPkg(id.Name); p != nil {
				if obj := p.Scope().Lookup(x.Name); obj != nil {
					return env.pkgObject(obj)
				}
				evalFail("unknown object %s.%s", id.Name, x.Name)
			}
		}
	}
	b := env.eval(x.X)
	if b.typ == nil {
		evalFail("field %s of untyped value %s", x.Name, x.X)
	}
	t := b.typ
	if pt, ok := derefType(t); ok {
		st, ok := pt.Underlying().(*types.Struct)
		if !ok {
			evalFail("field access on pointer to non-struct %s", t)
		}
		idx, f := findField(st, x.Name)
		if idx < 0 {
			// promoted through embedded pointer field?
			for i := 0; i < st.NumFields(); i++ {
				if st.Field(i).Embedded() {
					inner := &EField{&EField{x.X, st.Field(i).Name()}, x.Name}
					return env.eval(inner)
				}
			}
			evalFail("no field %s in %s", x.Name, pt)
		}
		fs := fx.sortOf(f.Type())
		hn := heapNameForField(pt, f.Name())
		h := env.heapGet(hn, arrOf(fs))
		return cval{t: "(select " + h + " " + b.t + ")", sort: fs, typ: f.Type()}
	}
	if st, ok := t.Underlying().(*types.Struct); ok {
		si := fx.structInfoOf(t)
		if si == nil || si.opaque {
			evalFail("field access on opaque struct %s", t)
		}
		idx, f := findField(st, x.Name)
		if idx < 0 {
			for i := 0; i < st.NumFields(); i++ {
				if st.Field(i).Embedded() {
					inner := &EField{&EField{x.X, st.Field(i).Name()}, x.Name}
					return env.eval(inner)
				}
			}
			evalFail("no field %s in %s", x.Name, t)
		}
		return cval{t: "(" + si.fields[idx] + " " + b.t + ")", sort: si.fsorts[idx], typ: f.Type()}
	}
	evalFail("field %s of non-struct %s", x.Name, t)
	return cval{}
}

func findField(st *types.Struct, name string) (int, *types.Var) {
	for i := 0; i < st.NumFields(); i++ {
		if st.Field(i).Name() == name {
			return i, st.Field(i)
		}
	}
	return -1, nil
}

// heapFieldKinds remembers, per field heap variable, whether its elements are
// references ("ref"), slices ("slice") or interfaces ("iface"): the
// well-formed-heap assumption (every stored reference denotes an object that
// already exists) is stated for those.
var heapFieldKinds = map[string]string{}

func refKindOf(t types.Type) string {
	switch t.Underlying().(type) {
	case *types.Pointer, *types.Map, *types.Chan, *types.Signature:
		return "ref"
	case *types.Slice:
		return "slice"
	case *types.Interface:
		return "iface"
	}
	return ""
}

func heapNameForField(structType types.Type, field string) string {
	n := "H." + sanitize(typeName(structType)) + "." + field
	if _, ok := heapFieldKinds[n]; !ok {
		heapFieldKinds[n] = ""
		if st, ok := structType.Underlying().(*types.Struct); ok {
			if _, f := findField(st, field); f != nil {
				heapFieldKinds[n] = refKindOf(f.Type())
			}
		}
	}
	return n
}

func (env *evalEnv) unifyNil(a, b cval) (cval, cval) {
	if a.sort == "nil" && b.sort != "nil" {
		a = cval{t: nilOfSort(b.sort), sort: b.sort, typ: b.typ}
	}
	if b.sort == "nil" && a.sort != "nil" {
		b = cval{t: nilOfSort(a.sort), sort: a.sort, typ: a.typ}
	}
	if a.sort == "nil" && b.sort == "nil" {
		a = cval{t: "0", sort: "Int"}
		b = a
	}
	return a, b
}

func nilOfSort(s string) string {
	switch s {
	case "Int":
		return "0"
	case "Slice":
		return "nilslice"
	case "Iface":
		return "niliface"
	case "Str":
		return "str.empty"
	}
	evalFail("nil of sort %s", s)
	return ""
}

func (env *evalEnv) evalBinary(x *EBinary) cval {
	a := env.eval(x.X)
	b := env.eval(x.Y)
	switch x.Op {
	case "==", "!=":
		var t string
		switch {
		case a.sort == "Slice" && b.sort == "nil":
			t = "(= (sptr " + a.t + ") 0)"
		case b.sort == "Slice" && a.sort == "nil":
			t = "(= (sptr " + b.t + ") 0)"
		case a.sort == "Iface" && b.sort == "nil":
			t = "(= (ityp " + a.t + ") 0)"
		case b.sort == "Iface" && a.sort == "nil":
			t = "(= (ityp " + b.t + ") 0)"
		default:
			a, b = env.unifyNil(a, b)
			if a.sort != b.sort {
				evalFail("sort mismatch in %s: %s vs %s", x, a.sort, b.sort)
			}
			t = "(= " + a.t + " " + b.t + ")"
		}
		if x.Op == "!=" {
			t = "(not " + t + ")"
		}
		return cval{t: t, sort: "Bool"}
	case "&&":
		return cval{t: "(and " + a.t + " " + b.t + ")", sort: "Bool"}
	case "||":
		return cval{t: "(or " + a.t + " " + b.t + ")", sort: "Bool"}
	case "==>":
		return cval{t: "(=> " + a.t + " " + b.t + ")", sort: "Bool"}
	case "<==>":
		return cval{t: "(= " + a.t + " " + b.t + ")", sort: "Bool"}
	case "<", "<=", ">", ">=":
		return cval{t: "(" + x.Op + " " + a.t + " " + b.t + ")", sort: "Bool"}
	case "+", "-", "*":
		return cval{t: "(" + x.Op + " " + a.t + " " + b.t + ")", sort: "Int"}
	case "/":
		return cval{t: "(div " + a.t + " " + b.t + ")", sort: "Int"}
	case "%":
		return cval{t: "(mod " + a.t + " " + b.t + ")", sort: "Int"}
	}
	evalFail("unknown operator %s", x.Op)
	return cval{}
}

func (env *evalEnv) mapSorts(m cval) (ks, vs string, vt types.Type) {
	if m.typ == nil {
		evalFail("map operation on untyped value")
	}
	mt, ok := m.typ.Underlying().(*types.Map)
	if !ok {
		evalFail("not a map: %s", m.typ)
	}
	ks, vs = env.fx.mapKV(mt)
	return ks, vs, mt.Elem()
}

func (env *evalEnv) evalCall(x *ECall) cval {
	fx := env.fx
	argn := func(n int) {
		if len(x.Args) != n {
			evalFail("%s expects %d arguments", x.Fn, n)
		}
	}
	switch x.Fn {
	case "old":
		argn(1)
		n := *env
		n.inOld = true
		return n.eval(x.Args[0])
	case "isnew":
		// isnew(x): the object x was allocated during this function's execution
		argn(1)
		v := env.eval(x.Args[0])
		return cval{t: "(> " + v.t + " " + env.entryMark() + ")", sort: "Bool"}
	case "allocated":
		// allocated(x): x exists now (it is not an object that will be allocated later)
		argn(1)
		v := env.eval(x.Args[0])
		if env.inOld {
			return cval{t: "(<= " + v.t + " " + env.entryMark() + ")", sort: "Bool"}
		}
		return cval{t: "(<= " + v.t + " " + env.st.alloc + ")", sort: "Bool"}
	case "store":
		argn(3)
		a := env.eval(x.Args[0])
		i := env.eval(x.Args[1])
		v := env.eval(x.Args[2])
		return cval{t: "(store " + a.t + " " + i.t + " " + v.t + ")", sort: a.sort}
	case "atlock":
		// atlock(e): e in the state right after the most recent Lock of a monitor
		argn(1)
		if env.st.lastLock == nil {
			evalFail("atlock: no Lock on this path")
		}
		n := *env
		n.old = env.st.lastLock
		n.inOld = true
		return n.eval(x.Args[0])
	case "len":
		argn(1)
		v := env.eval(x.Args[0])
		switch v.sort {
		case "Slice":
			return cval{t: "(slen " + v.t + ")", sort: "Int", typ: types.Typ[types.Int]}
		case "Str":
			return cval{t: "(strlen " + v.t + ")", sort: "Int", typ: types.Typ[types.Int]}
		case "Int":
			if v.typ != nil {
				if _, ok := v.typ.Underlying().(*types.Map); ok {
					return cval{t: "(select " + env.heapGet("MapLen", arrOf("Int")) + " " + v.t + ")", sort: "Int"}
				}
			}
		}
		evalFail("len of %s", x.Args[0])
	case "cap":
		argn(1)
		v := env.eval(x.Args[0])
		return cval{t: "(scap " + v.t + ")", sort: "Int"}
	case "in":
		argn(2)
		m := env.eval(x.Args[0])
		k := env.eval(x.Args[1])
		ks, vs, _ := env.mapSorts(m)
		h := env.heapGet(mapInName(ks, vs), "(Array Int (Array "+ks+" Bool))")
		return cval{t: "(and (not (= " + m.t + " 0)) (select (select " + h + " " + m.t + ") " + k.t + "))", sort: "Bool"}
	case "lookup":
		argn(2)
		m := env.eval(x.Args[0])
		k := env.eval(x.Args[1])
		ks, vs, vt := env.mapSorts(m)
		h := env.heapGet(mapValName(ks, vs), "(Array Int (Array "+ks+" "+vs+"))")
		return cval{t: "(select (select " + h + " " + m.t + ") " + k.t + ")", sort: fx.realSort(vs), typ: vt}
	case "str":
		// str(bytes) : the string with the slice's content
		argn(1)
		v := env.eval(x.Args[0])
		if v.sort == "Str" {
			return v
		}
		bmn, bms := fx.byteMem()
		mem := env.heapGet(bmn, bms)
		return cval{t: fmt.Sprintf("(bstr (select %s (sptr %s)) (soff %s) (slen %s))", mem, v.t, v.t, v.t), sort: "Str", typ: types.Typ[types.String]}
	case "typeis":
		// typeis(iface, TypeName)
		argn(2)
		v := env.eval(x.Args[0])
		_, t := env.resolveType(typeArg(x.Args[1]))
		return cval{t: fmt.Sprintf("(= (ityp %s) %d)", v.t, fx.typeID(t)), sort: "Bool"}
	case "unboxas":
		// unboxas(iface, TypeName): payload as that type
		argn(2)
		v := env.eval(x.Args[0])
		srt, t := env.resolveType(typeArg(x.Args[1]))
		out := cval{t: fx.unbox(srt, "(ival "+v.t+")"), sort: srt, typ: t}
		if _, isPtr := derefType(t); isPtr {
			out.lv = v.lv // the same pointer: keep what is known about its target
		}
		return out
	case "boxof":
		// boxof(value, TypeName): the interface holding value with that dynamic type
		argn(2)
		v := env.eval(x.Args[0])
		srt, t := env.resolveType(typeArg(x.Args[1]))
		return cval{t: fmt.Sprintf("(mkiface %d %s)", fx.typeID(t), fx.box(srt, v.t)), sort: "Iface"}
	case "ityp":
		argn(1)
		v := env.eval(x.Args[0])
		return cval{t: "(ityp " + v.t + ")", sort: "Int"}
	case "ival":
		argn(1)
		v := env.eval(x.Args[0])
		return cval{t: "(ival " + v.t + ")", sort: "Int"}
	case "visited":
		// visited(loopName, key)
		argn(2)
		id, ok := x.Args[0].(*EIdent)
		if !ok {
			evalFail("visited(loopN, key)")
		}
		it := env.iters[id.Name]
		if it == nil {
			evalFail("no iterator %s in scope", id.Name)
		}
		k := env.eval(x.Args[1])
		return cval{t: "(select " + it.visited + " " + k.t + ")", sort: "Bool"}
	case "called":
		// called("call.Recv#1"): that call was executed on this path
		argn(1)
		if env.calleeView != nil {
			k := "called|" + typeArg(x.Args[0])
			if _, ok := env.calleeView[k]; !ok {
				env.calleeView[k] = fx.freshConst("callee.called", "Bool")
			}
			return cval{t: env.calleeView[k], sort: "Bool"}
		}
		_, ok := env.st.callRes[typeArg(x.Args[0])]
		return cval{t: strconv.FormatBool(ok), sort: "Bool"}
	case "callres":
		// callres("call.Recv#1", i, "Type"): i-th result of that call on this path
		argn(3)
		rs, ok := env.st.callRes[typeArg(x.Args[0])]
		srt, typ := env.resolveType(typeArg(x.Args[2]))
		if env.calleeView != nil {
			k := "callres|" + typeArg(x.Args[0]) + "|" + x.Args[1].String()
			if _, ok := env.calleeView[k]; !ok {
				env.calleeView[k] = fx.freshConst("callee.res", srt)
			}
			return cval{t: env.calleeView[k], sort: srt, typ: typ}
		}
		if !ok {
			// not executed on this path: an arbitrary value (guard with called())
			return cval{t: fx.freshConst("nocall", srt), sort: srt, typ: typ}
		}
		i, _ := strconv.Atoi(x.Args[1].String())
		if i >= len(rs) {
			evalFail("callres index out of range")
		}
		return cval{t: rs[i], sort: srt, typ: typ}
	case "iscode":
		// iscode(f, "(*Client).stopLocked$2"): the function value f runs that code
		argn(2)
		v := env.eval(x.Args[0])
		want := typeArg(x.Args[1])
		var match *ssa.Function
		pk := ""
		if env.pkg != nil {
			pk = env.pkg.Path()
		}
		key := stripTypeArgs(qualifyKey(want, pk))
		match = fx.P.Funcs[key]
		if match == nil {
			for k, f := range fx.P.Funcs {
				if strings.HasSuffix(k, want) {
					match = f
				}
			}
		}
		if match == nil {
			// anonymous functions are not in Funcs: search by name
			for _, f := range fx.P.moduleFuncs() {
				if fnKey(f) == key || strings.HasSuffix(fnKey(f), want) {
					match = f
				}
			}
		}
		if match == nil {
			evalFail("iscode: unknown function %s", want)
		}
		fx.declare("closcode", "(declare-fun closcode (Int) Int)")
		return cval{t: fmt.Sprintf("(= (closcode %s) %d)", v.t, fx.fnCode(match)), sort: "Bool"}
	case "chantyped":
		// chantyped(c): c is nil or a channel of its static element type
		argn(1)
		v := env.eval(x.Args[0])
		ct, ok := v.typ.Underlying().(*types.Chan)
		if !ok {
			evalFail("chantyped: not a channel")
		}
		fx.declare("chan.type", "(declare-const chan.type (Array Int Int))")
		return cval{t: fmt.Sprintf("(or (= %s 0) (= (select chan.type %s) %d))", v.t, v.t, fx.typeID(ct.Elem())), sort: "Bool"}
	case "substr":
		argn(3)
		sv := env.eval(x.Args[0])
		a := env.eval(x.Args[1])
		b := env.eval(x.Args[2])
		fx.fnx().ensureSubstr()
		return cval{t: "(str.sub " + sv.t + " " + a.t + " " + b.t + ")", sort: "Str", typ: types.Typ[types.String]}
	case "ptr":
		argn(1)
		v := env.eval(x.Args[0])
		return cval{t: "(sptr " + v.t + ")", sort: "Int"}
	case "elems":
		// elems(s): the elements of slice s as a logical array indexed from 0
		argn(1)
		v := env.eval(x.Args[0])
		if v.sort != "Slice" {
			evalFail("elems of non-slice %s", x.Args[0])
		}
		es, et := env.elemOf(v.typ)
		mem := env.heapGet("Mem."+sanitize(es), "(Array Int "+arrOf(es)+")")
		arr := fx.winOf(es, fmt.Sprintf("(select %s (sptr %s))", mem, v.t), "(soff "+v.t+")")
		var at types.Type
		if et != nil {
			at = types.NewArray(et, 0)
		}
		return cval{t: arr, sort: arrOf(es), typ: at}
	case "fieldarr":
		// fieldarr("T", "f"): the current contents of field f of every T object,
		// as a logical array indexed by object reference
		argn(2)
		_, tt := env.resolveType(typeArg(x.Args[0]))
		if tt == nil {
			evalFail("fieldarr: unknown type %s", x.Args[0])
		}
		stt, ok := tt.Underlying().(*types.Struct)
		if !ok {
			evalFail("fieldarr: %s is not a struct type", x.Args[0])
		}
		_, f := findField(stt, typeArg(x.Args[1]))
		if f == nil {
			evalFail("fieldarr: no field %s", x.Args[1])
		}
		fs := fx.sortOf(f.Type())
		return cval{t: env.heapGet(heapNameForField(tt, f.Name()), arrOf(fs)), sort: arrOf(fs), typ: types.NewArray(f.Type(), 0)}
	case "fieldaddr":
		// fieldaddr(obj, fieldName): address of an embedded (by value) field
		argn(2)
		v := env.eval(x.Args[0])
		fn := x.Args[1].String()
		pt, ok := derefType(v.typ)
		if !ok {
			evalFail("fieldaddr on non-pointer")
		}
		st := pt.Underlying().(*types.Struct)
		_, f := findField(st, fn)
		if f == nil {
			evalFail("no field %s", fn)
		}
		return cval{t: fx.fieldAddrTerm(pt, fn, v.t), sort: "Int", typ: types.NewPointer(f.Type())}
	}
	// ghost arrays
	if g, ok := fx.P.Specs.Ghosts[x.Fn]; ok {
		if len(g.Args) != len(x.Args) {
			evalFail("ghost %s expects %d arguments", x.Fn, len(g.Args))
		}
		rs, rt := env.resolveType(g.Ret)
		full := rs
		var asorts []string
		for i := len(g.Args) - 1; i >= 0; i-- {
			as, _ := env.resolveType(g.Args[i])
			asorts = append([]string{as}, asorts...)
			full = "(Array " + as + " " + full + ")"
		}
		t := env.heapGet("ghost."+x.Fn, full)
		for i, a := range x.Args {
			av := env.eval(a)
			if av.sort == "nil" {
				av.t = nilOfSort(asorts[i])
			}
			t = "(select " + t + " " + av.t + ")"
		}
		return cval{t: t, sort: rs, typ: rt}
	}
	if s, ok := fx.P.Specs.SpecFns[x.Fn]; ok {
		if len(s.Args) != len(x.Args) {
			evalFail("spec %s expects %d arguments", x.Fn, len(s.Args))
		}
		rs, rt := env.resolveType(s.Ret)
		var as []string
		for _, a := range s.Args {
			srt, _ := env.resolveType(a)
			as = append(as, srt)
		}
		fx.declare("spec."+x.Fn, fmt.Sprintf("(declare-fun spec.%s (%s) %s)", x.Fn, strings.Join(as, " "), rs))
		var ts []string
		for i, a := range x.Args {
			av := env.eval(a)
			if av.sort == "nil" {
				av.t = nilOfSort(as[i])
			}
			ts = append(ts, av.t)
		}
		return cval{t: "(spec." + x.Fn + " " + strings.Join(ts, " ") + ")", sort: rs, typ: rt}
	}
	if p, ok := fx.P.Specs.Pures[x.Fn]; ok {
		if len(p.Params) != len(x.Args) {
			evalFail("pure %s expects %d arguments", x.Fn, len(p.Params))
		}
		vars := map[string]cval{}
		penv := *env
		if p.Pkg != "" {
			if tp := fx.P.TypesPkgs[p.Pkg]; tp != nil {
				penv.pkg = tp
			}
		}
		for i, prm := range p.Params {
			av := env.eval(x.Args[i])
			srt, typ := penv.resolveType(prm.Type)
			if av.sort == "nil" {
				av = cval{t: nilOfSort(srt), sort: srt, typ: typ}
			}
			if av.typ == nil {
				av.typ = typ
			}
			vars[prm.Name] = av
		}
		// pure bodies see only their parameters (plus heap)
		n := *env
		n.vars = vars
		if p.Pkg != "" {
			if tp := fx.P.TypesPkgs[p.Pkg]; tp != nil {
				n.pkg = tp
			}
		}
		return n.eval(p.Body)
	}
	evalFail("unknown function %s", x.Fn)
	return cval{}
}

// typeArg: a type given as a string literal ("*jrpc2.Error") or bare identifier.
func typeArg(e Expr) string {
	switch x := e.(type) {
	case *EStr:
		return x.V
	case *EIdent:
		return x.Name
	}
	evalFail("type argument must be a string literal: %s", e)
	return ""
}

func mapInName(ks, vs string) string  { return "MapIn." + sanitize(ks) + "." + sanitize(vs) }
func mapValName(ks, vs string) string { return "MapVal." + sanitize(ks) + "." + sanitize(vs) }

func (env *evalEnv) loadLV(lv *LValue) Term {
	switch lv.kind {
	case lvHeap:
		h := env.heapGet(lv.heap, lv.heapSort)
		return "(select " + h + " " + lv.idx + ")"
	case lvElem:
		h := env.heapGet(lv.heap, lv.heapSort)
		arr := "(select " + h + " " + lv.idx + ")"
		if lv.off != "" && lv.off != "0" {
			arr = env.fx.winOf(lv.elemSort, arr, lv.off)
		}
		return "(select " + arr + " " + lv.idx2 + ")"
	case lvSub:
		p := env.loadLV(lv.parent)
		return "(" + lv.si.fields[lv.fieldIdx] + " " + p + ")"
	}
	panic("bad lvalue")
}

// safeEval evaluates and converts evaluation errors into an error value.
func (env *evalEnv) safeEval(e Expr) (v cval, err error) {
	defer func() {
		if r := recover(); r != nil {
			switch x := r.(type) {
			case evalErr:
				err = x
			case unsupportedErr:
				err = x
			default:
				panic(r)
			}
		}
	}()
	return env.eval(e), nil
}
