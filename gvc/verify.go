package main

import (
	"sync/atomic"
	"fmt"
	"go/types"
	"sort"
	"strings"
	"sync"
	"time"

	"golang.org/x/tools/go/ssa"
)

type FnReport struct {
	Key         string
	Short       string
	Obls        []*Obligation
	Paths       int
	Truncated   bool
	Error       string // unsupported construct etc.
	Inlined     []string
	Havocked    []string
	Assumed     []string
	Notes       []string
	Trusted     bool
	HasContract bool
	fx          *FnExec
}

// verifyFunc generates all obligations of one function under contract.
func verifyFunc(P *Prog, fn *ssa.Function, fc *FuncContract) (rep *FnReport) {
	rep = &FnReport{Key: fnKey(fn), Short: shortFn(fn), HasContract: fc != nil}
	if fc != nil && fc.Trusted {
		rep.Trusted = true
		return rep
	}
	fx := newFnExec(P, fn, fc)
	rep.fx = fx
	defer func() {
		rep.Obls = fx.obls
		rep.Paths = fx.paths
		rep.Truncated = fx.truncated
		rep.Inlined = sortedBoolKeys(fx.inlined)
		rep.Havocked = sortedBoolKeys(fx.havocked)
		rep.Assumed = sortedBoolKeys(fx.assumed)
		rep.Notes = fx.notes
		if r := recover(); r != nil {
			switch x := r.(type) {
			case unsupportedErr:
				rep.Error = x.Error()
			case evalErr:
				rep.Error = "contract error: " + x.Error()
			case string:
				rep.Error = x
			default:
				panic(r)
			}
		}
	}()
	if len(fn.Blocks) == 0 {
		rep.Error = "no body"
		return
	}
	st := fx.initialState()
	fr := &frame{fn: fn, fc: fc}
	// parameters
	for i, p := range fn.Params {
		srt := fx.sortOf(p.Type())
		t := fx.constOf("p."+sanitize(p.Name()), srt)
		st.vals[p] = t
		st.assumeWF(t, p.Type())
		if i == 0 && fn.Signature.Recv() != nil {
			if _, isPtr := p.Type().Underlying().(*types.Pointer); isPtr && (fc == nil || !fc.NilRecv) {
				st.assume("(> " + t + " 0)")
			}
		}
	}
	for _, fv := range fn.FreeVars {
		srt := fx.sortOf(fv.Type())
		t := fx.constOf("fv."+sanitize(fv.Name()), srt)
		st.vals[fv] = t
		st.assumeWF(t, fv.Type())
		if _, isPtr := fv.Type().Underlying().(*types.Pointer); isPtr {
			st.assume("(> " + t + " 0)")
		}
	}
	// captured variables are distinct cells
	{
		var cells []string
		for _, fv := range fn.FreeVars {
			if pt, ok := fv.Type().Underlying().(*types.Pointer); ok {
				if _, isStruct := pt.Elem().Underlying().(*types.Struct); !isStruct {
					cells = append(cells, st.vals[fv])
				}
			}
		}
		if len(cells) > 1 {
			st.assume("(distinct " + strings.Join(cells, " ") + ")")
		}
	}
	st.entryHeap = map[string]Term{}
	fx.assumeGlobals(st, fr)
	// thread-local ghost counters are natural numbers (every contract that
	// decrements one requires enough of it)
	for _, name := range sortedKeys(P.Specs.Ghosts) {
		g := P.Specs.Ghosts[name]
		if !g.ThreadLocal || g.Ret != "Int" {
			continue
		}
		full := fx.ghostSort(g)
		h := st.heapGet("ghost."+name, full)
		switch len(g.Args) {
		case 0:
			st.assume("(>= " + h + " 0)")
		case 1:
			is := arrayIndexSort(full)
			st.assume("(forall ((q.g " + is + ")) (! (>= (select " + h + " q.g) 0) :pattern ((select " + h + " q.g))))")
		}
	}
	if fc != nil {
		fx.nolockset = fc.NoLockset != ""
		env := fx.frameEnv(st, fr)
		for _, c := range append(append([]Clause{}, fc.Captures...), fc.Requires...) {
			v, err := env.safeEval(c.Expr)
			if err != nil {
				panic(fmt.Sprintf("%s:%d: %v", c.File, c.Line, err))
			}
			st.assume(v.t)
		}
		// root: thread-local ghost starts from exactly the transferred amounts
		if fc.Root {
			for name, g := range P.Specs.Ghosts {
				if !g.ThreadLocal {
					continue
				}
				full := fx.ghostSort(g)
				zero := fx.zeroGhost(g)
				st.heapSet("ghost."+name, full, zero)
			}
			for _, tr := range fc.Transfers {
				amt, err := env.safeEval(tr.Amount)
				if err != nil {
					panic(fmt.Sprintf("%s:%d: %v", fc.File, fc.Line, err))
				}
				fx.assignGhost(st, env, tr.Ghost, amt.t)
			}
			st.entryHeap = st.snapshotHeap()
		}
	}
	// vacuity guard: the entry assumptions (type invariants, global invariants,
	// requires) must be satisfiable
	fx.obls = append(fx.obls, &Obligation{Name: shortFn(fn) + "#vacuity:requires-satisfiable", Kind: "vacuity", Fn: shortFn(fn),
		Assumes: append([]Term(nil), st.pc...), Goal: "false", Invert: true})
	fr.ret = func(st *State, results []Term) { fx.finish(st, fr, results) }
	fx.execBlock(st, fr, fn.Blocks[0], nil)
	return rep
}

func (fx *FnExec) zeroGhost(g *GhostDecl) Term {
	env := &evalEnv{fx: fx}
	rs, _ := env.resolveType(g.Ret)
	t := fx.zeroOfSort(rs)
	srt := rs
	for i := len(g.Args) - 1; i >= 0; i-- {
		as, _ := env.resolveType(g.Args[i])
		srt = "(Array " + as + " " + srt + ")"
		t = "((as const " + srt + ") " + t + ")"
	}
	return t
}

func sortedBoolKeys(m map[string]bool) []string {
	var ks []string
	for k := range m {
		ks = append(ks, k)
	}
	sort.Strings(ks)
	return ks
}

// assumeGlobals: package-level invariants (validated separately against init).
func (fx *FnExec) assumeGlobals(st *State, fr *frame) {
	for _, c := range fx.P.Specs.GlobalInv {
		env := &evalEnv{fx: fx, st: st, vars: map[string]cval{}, pkg: fx.P.TypesPkgs[c.Label]}
		v, err := env.safeEval(c.Expr)
		if err != nil {
			panic(fmt.Sprintf("%s:%d: %v", c.File, c.Line, err))
		}
		st.assume(v.t)
	}
}

// finish: the top-level function returns.
func (fx *FnExec) finish(st *State, fr *frame, results []Term) {
	fx.paths++
	fc := fx.fc
	if fc == nil {
		return
	}
	env := fx.frameEnv(st, fr)
	sig := fr.fn.Signature
	names := resultNames(sig)
	rs := sig.Results()
	for i := range results {
		cv := cval{t: results[i], typ: rs.At(i).Type(), sort: fx.sortOf(rs.At(i).Type())}
		env.vars[names[i]] = cv
		env.vars[fmt.Sprintf("result%d", i)] = cv
		if rs.Len() == 1 {
			env.vars["result"] = cv
		}
	}
	// parameters keep their entry values in postconditions
	for _, p := range fr.fn.Params {
		env.vars[p.Name()] = cval{t: "p." + sanitize(p.Name()), typ: p.Type(), sort: fx.sortOf(p.Type()), lv: st.lvs[p]}
	}
	retName := "return"
	if st.retSite != nil {
		retName = fx.ord(fr.fn, st.retSite, "return")
	}
	fx.curResults = append([]Term(nil), results...)
	for i, c := range fc.Ensures {
		v, err := env.safeEval(c.Expr)
		if err != nil {
			panic(fmt.Sprintf("%s:%d: %v", c.File, c.Line, err))
		}
		fx.emit(st, fr, "ensures", clauseName(c, i)+"@"+retName, v.t, c.Props, c.Src)
	}
	// frame: everything outside `modifies` is unchanged for pre-existing objects
	fx.frameObligations(st, fr, env, retName)
}

func (fx *FnExec) frameObligations(st *State, fr *frame, env *evalEnv, retName string) {
	fx.frameCheck(st, fr, env, retName, fx.fc.Modifies, st.entryHeap, fx.entryAlloc, "frame")
}

// frameCheck: every heap variable changed since the snapshot `initHeap` agrees
// with it on all objects that existed then (<= allocBound), except at the
// locations named by `modifies` (evaluated in the snapshot state).
type frameAllow struct {
	whole bool
	idx   []Term
	sets  []string // conditions over q.f: "q.f is one of the allowed objects" (pointees(x))
}

func (fx *FnExec) frameCheck(st *State, fr *frame, env *evalEnv, retName string, modifies []Expr, initHeap map[string]Term, allocBound Term, kind string) {
	allowed := fx.frameAllowed(env, modifies, initHeap)
	for _, name := range sortedTermKeys(st.heap) {
		if f, ok := fx.frameFormula(st, name, st.heap[name], allowed, initHeap, allocBound); ok {
			fx.emit(st, fr, kind, name+"@"+retName, f, nil, "")
		}
	}
}

// frameFormula: `cur` agrees with the snapshot value of heap variable `name`
// on everything that existed at the snapshot, outside the allowed locations.
func (fx *FnExec) frameFormula(st *State, name string, cur Term, allowed map[string]*frameAllow, initHeap map[string]Term, allocBound Term) (Term, bool) {
	srt := fx.heapSorts[name]
	init := initHeap[name]
	if init == "" {
		init = sanitize(name) + "@0"
	}
	if cur == init {
		return "", false
	}
	if strings.HasPrefix(name, "ghost.chan") || strings.HasPrefix(name, "gv.") {
		// channel ghost state follows Go's channel semantics, not a frame;
		// ghost locals are not observable
		return "", false
	}
	a := allowed[name]
	if a != nil && a.whole {
		return "", false
	}
	if !strings.HasPrefix(srt, "(Array ") {
		return "(= " + cur + " " + init + ")", true
	}
	isrt := arrayIndexSort(srt)
	var conds []string
	if isrt == "Int" {
		// locations that existed at entry: objects up to the watermark and the
		// field addresses -(base*1024+k) of such objects
		conds = append(conds, "(<= q.f "+allocBound+")", "(> q.f (- (* (+ "+allocBound+" 1) 1024)))", "(not (= q.f 0))")
	}
	if isrt == "Iface" {
		// ghost state about an interface value that wraps an object allocated
		// by this function did not exist for the caller
		conds = append(conds, "(<= (ival q.f) "+allocBound+")")
	}
	if a != nil {
		for _, ix := range a.idx {
			conds = append(conds, "(not (= q.f "+ix+"))")
		}
	}
	if any := allowed["*"]; any != nil && isrt == "Int" && !strings.HasPrefix(name, "ghost.") {
		// pointee(p) targets: that object, in every field/cell/array/map heap
		for _, ix := range any.idx {
			conds = append(conds, "(not (= q.f "+ix+"))")
		}
		for _, set := range any.sets {
			conds = append(conds, "(not "+set+")")
		}
	}
	body := "(= (select " + cur + " q.f) (select " + init + " q.f))"
	if len(conds) > 0 {
		body = "(=> (and " + strings.Join(conds, " ") + ") " + body + ")"
	}
	if !strings.ContainsAny(cur, "( ") {
		return "(forall ((q.f " + isrt + ")) (! " + body + " :pattern ((select " + cur + " q.f))))", true
	}
	return "(forall ((q.f " + isrt + ")) " + body + ")", true
}

// frameAllowed: the locations a modifies list permits, evaluated in the snapshot state.
func (fx *FnExec) frameAllowed(env *evalEnv, modifies []Expr, initHeap map[string]Term) map[string]*frameAllow {
	type allow = frameAllow
	allowed := map[string]*allow{}
	pre := *env
	pre.old = initHeap
	pre.inOld = true
	add := func(name string, whole bool, idx Term) {
		a := allowed[name]
		if a == nil {
			a = &allow{}
			allowed[name] = a
		}
		if whole {
			a.whole = true
		} else {
			a.idx = append(a.idx, idx)
		}
	}
	for _, m := range modifies {
		switch x := m.(type) {
		case *EField:
			if hv, ok := fx.wholeFieldTarget(x, func(n string) bool { _, is := pre.vars[n]; return is }, pre.pkg); ok {
				add(hv.name, true, "")
				continue
			}
			b := pre.eval(x.X)
			pt, _ := derefType(b.typ)
			add(heapNameForField(pt, x.Name), false, b.t)
		case *EUnary:
			b := pre.eval(x.X)
			if b.lv != nil {
				switch b.lv.kind {
				case lvHeap:
					add(b.lv.heap, false, b.lv.idx)
				case lvElem:
					add(b.lv.heap, false, b.lv.idx)
				default:
					root := b.lv
					for root.kind == lvSub {
						root = root.parent
					}
					add(root.heap, false, root.idx)
				}
			} else if pt, ok := derefType(b.typ); ok {
				srt := fx.sortOf(pt)
				add("Cell."+sanitize(srt), false, b.t)
			}
		case *ECall:
			switch x.Fn {
			case "pointees":
				// every object an element (slice) or value (map) of x points to
				v := pre.eval(x.Args[0])
				a := allowed["*"]
				if a == nil {
					a = &allow{}
					allowed["*"] = a
				}
				target := func(e cval) Term {
					if e.sort == "Iface" {
						return "(ival " + e.t + ")"
					}
					return e.t
				}
				if v.sort == "Slice" {
					es, et := pre.elemOf(v.typ)
					mem := pre.heapGet("Mem."+sanitize(es), "(Array Int "+arrOf(es)+")")
					arr := fx.winOf(es, fmt.Sprintf("(select %s (sptr %s))", mem, v.t), "(soff "+v.t+")")
					el := cval{t: "(select " + arr + " q.pi)", sort: fx.realSort(es), typ: et}
					a.sets = append(a.sets, "(exists ((q.pi Int)) (and (<= 0 q.pi) (< q.pi (slen "+v.t+")) (= q.f "+target(el)+")))")
				} else if _, isMap := v.typ.Underlying().(*types.Map); isMap {
					ks, vs, _ := pre.mapSorts(v)
					inH := pre.heapGet(mapInName(ks, vs), "(Array Int (Array "+ks+" Bool))")
					valH := pre.heapGet(mapValName(ks, vs), "(Array Int (Array "+ks+" "+vs+"))")
					el := cval{t: "(select (select " + valH + " " + v.t + ") q.pk)", sort: fx.realSort(vs)}
					a.sets = append(a.sets, "(exists ((q.pk "+ks+")) (and (select (select "+inH+" "+v.t+") q.pk) (= q.f "+target(el)+")))")
				} else {
					evalFail("pointees of %s: neither a slice nor a map", x.Args[0])
				}
			case "pointee":
				v := pre.eval(x.Args[0])
				if v.lv != nil {
					root := v.lv
					for root.kind == lvSub {
						root = root.parent
					}
					add(root.heap, false, root.idx)
				} else if v.sort == "Iface" {
					add("*", false, "(ival "+v.t+")")
				} else {
					add("*", false, v.t)
				}
			case "map":
				mv := pre.eval(x.Args[0])
				ks, vs, _ := pre.mapSorts(mv)
				add(mapInName(ks, vs), false, mv.t)
				add(mapValName(ks, vs), false, mv.t)
				add("MapLen", false, mv.t)
			case "mem":
				sv := pre.eval(x.Args[0])
				es, _ := pre.elemOf(sv.typ)
				add("Mem."+sanitize(es), false, "(sptr "+sv.t+")")
			default:
				if g, ok := fx.P.Specs.Ghosts[x.Fn]; ok {
					if len(g.Args) == 1 {
						add("ghost."+x.Fn, false, pre.eval(x.Args[0]).t)
					} else {
						add("ghost."+x.Fn, true, "")
					}
				}
			}
		case *EIdent:
			if v, ok := pre.vars[x.Name]; ok && v.cell && v.lv != nil {
				add(v.lv.heap, false, v.lv.idx)
			} else {
				add("ghost."+x.Name, true, "")
			}
		}
	}
	return allowed
}

// ---- query assembly and solving ----

func (fx *FnExec) finalizeAxioms() []string {
	var out []string
	// spec-level axioms
	for _, c := range fx.P.Specs.Axioms {
		if c.By != "" && c.By == fx.lemmaName {
			continue // the induction consequence of the lemma being checked
		}
		env := &evalEnv{fx: fx, st: &State{fx: fx, heap: map[string]Term{}}, vars: map[string]cval{}, pkg: fx.P.TypesPkgs[c.Label]}
		v, err := env.safeEval(c.Expr)
		if err != nil {
			panic(fmt.Sprintf("%s:%d: %v", c.File, c.Line, err))
		}
		out = append(out, v.t)
	}
	// sentinel error values: non-nil, pairwise distinct
	var used []string
	for _, s := range fx.P.Specs.Sentinels {
		i := strings.LastIndex(s, ".")
		pkg := fx.P.lookupPkg(s[:i])
		if pkg == nil {
			continue
		}
		n := "G." + sanitize(pkg.Path()) + "." + s[i+1:]
		if fx.declared[n] {
			used = append(used, n)
			if tn := fx.P.Specs.SentinelType[s]; tn != "" {
				env := &evalEnv{fx: fx}
				_, t := env.resolveType(tn)
				out = append(out, fmt.Sprintf("(= (ityp %s) %d)", n, fx.typeID(t)))
			}
		}
	}
	for _, n := range used {
		out = append(out, "(not (= (ityp "+n+") 0))")
		out = append(out, "(> (ival "+n+") 0)")
	}
	if len(used) > 1 {
		var ivs []string
		for _, n := range used {
			ivs = append(ivs, "(ival "+n+")")
		}
		out = append(out, "(distinct "+strings.Join(ivs, " ")+")")
	}
	// interface satisfaction facts for known concrete types
	for iid, it := range fx.implQueries {
		iface := it.Underlying().(*types.Interface)
		for id := 1; id <= len(fx.typeByID); id++ {
			t := fx.typeByID[id-1]
			if _, isI := t.Underlying().(*types.Interface); isI {
				continue
			}
			if types.Implements(t, iface) {
				out = append(out, fmt.Sprintf("(impl.%d %d)", iid, id))
			} else {
				out = append(out, fmt.Sprintf("(not (impl.%d %d))", iid, id))
			}
		}
	}
	return out
}

var denseRetries int64

func (fx *FnExec) buildQuery(o *Obligation, extra []string) string {
	return fx.buildQueryMode(o, extra, false)
}

// buildQueryMode: relaxed drops every quantified assumption (used only to look
// for a candidate counterexample after the full query came back unknown).
func (fx *FnExec) buildQueryMode(o *Obligation, extra []string, relaxed bool) string {
	var b strings.Builder
	if relaxed {
		for _, l := range strings.Split(prelude, "\n") {
			if strings.HasPrefix(l, "(assert (forall") {
				continue
			}
			b.WriteString(l)
			b.WriteByte('\n')
		}
	} else {
		b.WriteString(prelude)
	}
	keep := func(a string) bool {
		return !relaxed || !(strings.Contains(a, "(forall ") || strings.Contains(a, "(exists "))
	}
	for _, d := range fx.decls {
		b.WriteString(d)
		b.WriteByte('\n')
		if relaxed && strings.HasPrefix(d, "(declare-const ") {
			if f := strings.Fields(d); len(f) >= 3 && f[2] == "Str)" {
				b.WriteString("(assert (and (>= (strlen " + f[1] + ") 0) (<= (strlen " + f[1] + ") 1152921504606846976)))\n")
			}
		}
	}
	for _, a := range fx.axioms {
		if keep(a) {
			b.WriteString("(assert " + a + ")\n")
		}
	}
	for _, a := range extra {
		if keep(a) {
			b.WriteString("(assert " + a + ")\n")
		}
	}
	for i, a := range o.Assumes {
		if keep(a) {
			if o.nameSteps && i >= o.PreLen {
				b.WriteString(fmt.Sprintf("(assert (! %s :named vstep_%d))\n", a, i))
				continue
			}
			b.WriteString("(assert " + a + ")\n")
		}
	}
	if relaxed && (strings.Contains(o.Goal, "(forall ") || strings.Contains(o.Goal, "(exists ")) {
		return ""
	}
	b.WriteString("(assert (not " + o.Goal + "))\n")
	b.WriteString("(check-sat)\n")
	return b.String()
}

type solveOpts struct {
	timeout time.Duration
	models  bool
}

func solveReport(rep *FnReport, opts solveOpts) {
	if rep.fx == nil {
		return
	}
	fx := rep.fx
	var extra []string
	func() {
		defer func() {
			if r := recover(); r != nil {
				rep.Error = fmt.Sprint(r)
			}
		}()
		extra = fx.finalizeAxioms()
	}()
	var wg sync.WaitGroup
	sem := make(chan struct{}, 12)
	// identical (assumes, goal) pairs are solved once
	type key struct{ q string }
	cache := map[string]*Obligation{}
	var mu sync.Mutex
	for _, o := range rep.Obls {
		o := o
		q := fx.buildQuery(o, extra)
		mu.Lock()
		if prev, ok := cache[q]; ok {
			mu.Unlock()
			wg.Add(1)
			go func() {
				defer wg.Done()
				// wait for prev by polling its result status
				for prev.Result.Status == "" {
					time.Sleep(5 * time.Millisecond)
				}
				o.Result = prev.Result
			}()
			continue
		}
		cache[q] = o
		mu.Unlock()
		wg.Add(1)
		go func() {
			defer wg.Done()
			sem <- struct{}{}
			defer func() { <-sem }()
			to := opts.timeout
			if o.Invert {
				to = 1500 * time.Millisecond
			}
			r := Solve(q, to, false)
			if o.Invert && r.Status != "unsat" {
				// the quantifier-free part alone may already be contradictory
				if rq := fx.buildQueryMode(o, extra, true); rq != "" {
					if r2 := Solve(rq, to, false); r2.Status == "unsat" {
						r = r2
					}
				}
			}
			if o.Invert {
				// satisfiable or unknown: fine; unsat: the assumptions are contradictory
				if r.Status == "unsat" && o.PreLen > 0 {
					// contradictory after the step: a finding only if the path was not
					// already infeasible before it AND the contradiction uses what the
					// step assumed (minimized unsat core)
					pre := *o
					pre.Assumes = o.Assumes[:o.PreLen]
					if r0 := Solve(fx.buildQuery(&pre, extra), 10*time.Second, false); r0.Status == "unsat" {
						r.Status = "unknown"
					} else {
						named := *o
						named.nameSteps = true
						if us, uses := solveCore(fx.buildQuery(&named, extra), 10*time.Second); !us || !uses {
							r.Status = "unknown"
						}
					}
				}
				if r.Status == "unsat" {
					r.Status = "sat"
					r.Model = "assumptions are contradictory (vacuous contract)"
				} else {
					r.Status = "unsat"
				}
				o.Result = r
				return
			}
			if r.Status != "unsat" && len(o.Hints) > 0 && atomic.AddInt64(&denseRetries, 1) <= 40 {
				// second encoding: allocation takes the next unused address
				// (a third of the budget, at most 40 retries per run: a tree on
				// which dozens of obligations fail is reported without them)
				h := *o
				h.Assumes = append(append([]Term(nil), o.Assumes...), o.Hints...)
				if r2 := Solve(fx.buildQuery(&h, extra), to/3, false); r2.Status == "unsat" {
					r2.Solver += "+dense"
					r2.Time += r.Time
					r = r2
				}
			}
			if r.Status == "sat" && opts.models {
				r2 := Solve(q, opts.timeout, true)
				if r2.Status == "sat" {
					r.Model = r2.Model
				}
			}
			if (r.Status == "unknown" || r.Status == "timeout") && opts.models {
				// candidate counterexample from the quantifier-free relaxation
				if rq := fx.buildQueryMode(o, extra, true); rq != "" {
					r2 := Solve(rq, opts.timeout, true)
					if r2.Status == "sat" {
						r.Relaxed = true
						r.Model = r2.Model
					}
				}
			}
			o.Result = r
		}()
	}
	wg.Wait()
}

// verifyLemma checks a spec-level lemma: hypotheses imply each conclusion,
// under the global axioms, for all values of its variables.
func verifyLemma(P *Prog, lm *Lemma) (rep *FnReport) {
	rep = &FnReport{Key: "lemma:" + lm.Name, Short: "lemma." + lm.Name, HasContract: true}
	fx := newFnExec(P, nil, nil)
	fx.lemmaName = lm.Name
	rep.fx = fx
	defer func() {
		rep.Obls = fx.obls
		if r := recover(); r != nil {
			switch x := r.(type) {
			case unsupportedErr:
				rep.Error = x.Error()
			case evalErr:
				rep.Error = "contract error: " + x.Error()
			case string:
				rep.Error = x
			default:
				panic(r)
			}
		}
	}()
	st := &State{fx: fx, vals: map[ssa.Value]Term{}, heap: map[string]Term{}}
	st.alloc = fx.constOf("alloc@0", "Int")
	fx.entryAlloc = st.alloc
	env := &evalEnv{fx: fx, st: st, vars: map[string]cval{}, pkg: P.TypesPkgs[lm.Pkg]}
	for _, v := range lm.Vars {
		srt, typ := env.resolveType(v.Type)
		t := fx.constOf("l."+v.Name, srt)
		env.vars[v.Name] = cval{t: t, sort: srt, typ: typ}
		if typ != nil {
			st.assumeWF(t, typ)
		}
		if srt == "Iface" {
			st.assume("(wfiface " + t + ")")
		}
	}
	fx.assumeGlobals(st, nil)
	for _, h := range lm.Hyps {
		v, err := env.safeEval(h.Expr)
		if err != nil {
			panic(fmt.Sprintf("%s:%d: %v", h.File, h.Line, err))
		}
		st.assume(v.t)
	}
	for i, c := range lm.Concl {
		v, err := env.safeEval(c.Expr)
		if err != nil {
			panic(fmt.Sprintf("%s:%d: %v", c.File, c.Line, err))
		}
		o := &Obligation{Name: "lemma." + lm.Name + "#lemma:" + clauseName(c, i), Kind: "lemma", Fn: "lemma." + lm.Name, Props: lm.Props,
			Assumes: append([]Term(nil), st.pc...), Goal: v.t, Src: c.Src}
		fx.obls = append(fx.obls, o)
	}
	return rep
}
