package main

// Replay of counterexamples against the real code (go test -overlay).
//
// Scope (stated in DESIGN.md, Part IV): package-level functions whose
// parameters are machine integers, booleans, strings or byte slices. For such
// a function, when a solver returns a model for a failed obligation, the
// parameter values are read off the model, an in-package test that calls the
// real function with them is injected through `go test -overlay` (nothing is
// written to /repo), and
//   - for a safety obligation (index, nil, slice, make, division, explicit
//     panic, type assertion) the violation is confirmed when the real run
//     panics;
//   - for a postcondition it is confirmed when the real run returns exactly
//     the result values of the model (on which the solver evaluated the
//     clause to false) and the clause mentions no uninterpreted specification
//     function.
// Everything else is reported without a failing input.

import (
	"encoding/json"
	"fmt"
	"go/types"
	"os"
	"os/exec"
	"path/filepath"
	"regexp"
	"strconv"
	"strings"
	"time"

	"golang.org/x/tools/go/ssa"
)

type replayVal struct {
	kind string // int | bool | string | bytes
	i    int64
	b    bool
	s    []byte
	typ  types.Type
}

func replayable(t types.Type) string {
	switch u := t.Underlying().(type) {
	case *types.Basic:
		switch {
		case u.Info()&types.IsInteger != 0:
			return "int"
		case u.Info()&types.IsBoolean != 0:
			return "bool"
		case u.Info()&types.IsString != 0:
			return "string"
		}
	case *types.Slice:
		if b, ok := u.Elem().Underlying().(*types.Basic); ok && b.Kind() == types.Uint8 {
			return "bytes"
		}
	}
	return ""
}

var numRe = regexp.MustCompile(`\(- (\d+)\)|(-?\d+)|(true|false)`)

// getValues asks z3 for the values of the given terms in a model of q.
func getValues(q string, terms []string, timeout time.Duration) ([]string, bool) {
	if len(terms) == 0 {
		return nil, true
	}
	var b strings.Builder
	b.WriteString("(set-option :produce-models true)\n")
	b.WriteString(q)
	for _, t := range terms {
		b.WriteString("(get-value (" + t + "))\n")
	}
	n := time.Now().UnixNano()
	file := filepath.Join(workDir, fmt.Sprintf("rv%d.smt2", n))
	os.WriteFile(file, []byte(b.String()), 0o644)
	defer os.Remove(file)
	out, _ := exec.Command("z3-new", fmt.Sprintf("-t:%d", int(timeout/time.Millisecond)), file).CombinedOutput()
	lines := strings.Split(strings.TrimSpace(string(out)), "\n")
	if len(lines) == 0 || strings.TrimSpace(lines[0]) != "sat" {
		return nil, false
	}
	var vals []string
	for _, l := range lines[1:] {
		l = strings.TrimSpace(l)
		if !strings.HasPrefix(l, "((") {
			continue
		}
		// ((term value))  - the value is the last balanced item
		l = strings.TrimSuffix(l, "))")
		idx := strings.LastIndex(l, " ")
		v := l[idx+1:]
		if strings.HasSuffix(l, ")") { // (- n)
			if j := strings.LastIndex(l, "(- "); j >= 0 {
				v = l[j:]
			}
		}
		vals = append(vals, v)
	}
	if len(vals) != len(terms) {
		return nil, false
	}
	return vals, true
}

func parseInt(v string) (int64, bool) {
	m := numRe.FindStringSubmatch(v)
	if m == nil {
		return 0, false
	}
	if m[1] != "" {
		n, err := strconv.ParseInt(m[1], 10, 64)
		return -n, err == nil
	}
	if m[2] != "" {
		n, err := strconv.ParseInt(m[2], 10, 64)
		return n, err == nil
	}
	return 0, false
}

// modelValue reads the value of term (of Go type typ) from a model of q.
func modelValue(q, term string, typ types.Type, memTerm string) (*replayVal, bool) {
	kind := replayable(typ)
	to := 10 * time.Second
	switch kind {
	case "int":
		vs, ok := getValues(q, []string{term}, to)
		if !ok {
			return nil, false
		}
		n, ok := parseInt(vs[0])
		return &replayVal{kind: kind, i: n, typ: typ}, ok
	case "bool":
		vs, ok := getValues(q, []string{term}, to)
		if !ok {
			return nil, false
		}
		return &replayVal{kind: kind, b: strings.Contains(vs[0], "true"), typ: typ}, true
	case "string":
		vs, ok := getValues(q, []string{"(strlen " + term + ")"}, to)
		if !ok {
			return nil, false
		}
		n, ok := parseInt(vs[0])
		if !ok || n < 0 || n > 4096 {
			return nil, false
		}
		var ts []string
		for i := int64(0); i < n; i++ {
			ts = append(ts, fmt.Sprintf("(strat %s %d)", term, i))
		}
		cs, ok := getValues(q+fmt.Sprintf("(assert (= (strlen %s) %d))\n(check-sat)\n", term, n), ts, to)
		if !ok && n > 0 {
			return nil, false
		}
		rv := &replayVal{kind: kind, typ: typ}
		for _, c := range cs {
			x, ok := parseInt(c)
			if !ok {
				return nil, false
			}
			rv.s = append(rv.s, byte(x))
		}
		return rv, true
	case "bytes":
		vs, ok := getValues(q, []string{"(slen " + term + ")", "(sptr " + term + ")", "(soff " + term + ")"}, to)
		if !ok {
			return nil, false
		}
		n, ok := parseInt(vs[0])
		if !ok || n < 0 || n > 4096 {
			return nil, false
		}
		rv := &replayVal{kind: kind, typ: typ}
		if n == 0 || memTerm == "" {
			return rv, n == 0
		}
		var ts []string
		for i := int64(0); i < n; i++ {
			ts = append(ts, fmt.Sprintf("(select (select %s (sptr %s)) (+ (soff %s) %d))", memTerm, term, term, i))
		}
		cs, ok := getValues(q+fmt.Sprintf("(assert (= (slen %s) %d))\n(check-sat)\n", term, n), ts, to)
		if !ok {
			return nil, false
		}
		for _, c := range cs {
			x, ok := parseInt(c)
			if !ok {
				return nil, false
			}
			rv.s = append(rv.s, byte(x))
		}
		return rv, true
	}
	return nil, false
}

func (v *replayVal) goLit(qual types.Qualifier) string {
	ts := types.TypeString(v.typ, qual)
	switch v.kind {
	case "int":
		return fmt.Sprintf("%s(%d)", ts, v.i)
	case "bool":
		return fmt.Sprintf("%s(%v)", ts, v.b)
	case "string":
		return fmt.Sprintf("%s(%q)", ts, string(v.s))
	case "bytes":
		if v.s == nil {
			return fmt.Sprintf("%s(nil)", ts)
		}
		return fmt.Sprintf("%s(%q)", ts, string(v.s))
	}
	return "nil"
}

func (v *replayVal) show() string {
	switch v.kind {
	case "int":
		return fmt.Sprint(v.i)
	case "bool":
		return fmt.Sprint(v.b)
	}
	return fmt.Sprintf("%q", string(v.s))
}

var panicKinds = map[string]bool{"bounds": true, "nonnil": true, "slice": true, "make-size": true, "div-zero": true, "panic-unreachable": true, "type-assert": true, "map-nil": true, "chan-open": true}

func replayObligation(P *Prog, repo, prop, name string, o *Obligation, rf map[string]any) bool {
	fx := o.fx
	if fx == nil || fx.fn == nil {
		return false
	}
	fn := fx.fn
	if fn.Signature.Recv() != nil || fn.Parent() != nil || fn.Pkg == nil || len(fn.Params) == 0 {
		return false
	}
	for _, p := range fn.Params {
		if replayable(p.Type()) == "" {
			return false
		}
	}
	isPanic := panicKinds[o.Kind]
	if !isPanic && o.Kind != "ensures" {
		return false
	}
	if !isPanic {
		// the clause must be evaluable from inputs and outputs alone
		for n := range P.Specs.SpecFns {
			if strings.Contains(o.Goal, "spec."+n+" ") || strings.Contains(o.Goal, "(spec."+n+")") {
				return false
			}
		}
		if strings.Contains(o.Goal, "ghost.") {
			return false
		}
	}
	extra := fx.finalizeAxioms()
	q := fx.buildQuery(o, extra)
	if _, ok := getValues(q, []string{"0"}, 10*time.Second); !ok {
		// try the quantifier-free relaxation (a candidate only; the real run decides)
		if rq := fx.buildQueryMode(o, extra, true); rq != "" {
			q = rq
		} else {
			return false
		}
		if _, ok := getValues(q, []string{"0"}, 10*time.Second); !ok {
			return false
		}
	}
	memName, _ := fx.byteMem()
	memTerm := sanitize(memName) + "@0"
	if !strings.Contains(q, "(declare-const "+memTerm+" ") {
		memTerm = ""
	}
	// pin each value once read, so that later reads come from the same model
	var args []*replayVal
	for _, p := range fn.Params {
		term := "p." + sanitize(p.Name())
		v, ok := modelValue(q, term, p.Type(), memTerm)
		if !ok {
			return false
		}
		args = append(args, v)
		switch v.kind {
		case "int":
			q += fmt.Sprintf("(assert (= %s %s))\n(check-sat)\n", term, intLit(v.i))
		case "bool":
			q += fmt.Sprintf("(assert (= %s %v))\n(check-sat)\n", term, v.b)
		case "string":
			q += fmt.Sprintf("(assert (= (strlen %s) %d))\n", term, len(v.s))
			for i, c := range v.s {
				q += fmt.Sprintf("(assert (= (strat %s %d) %d))\n", term, i, c)
			}
			q += "(check-sat)\n"
		case "bytes":
			q += fmt.Sprintf("(assert (= (slen %s) %d))\n", term, len(v.s))
			for i, c := range v.s {
				q += fmt.Sprintf("(assert (= (select (select %s (sptr %s)) (+ (soff %s) %d)) %d))\n", memTerm, term, term, i, c)
			}
			q += "(check-sat)\n"
		}
	}
	// expected results (postconditions only)
	rs := fn.Signature.Results()
	var want []*replayVal
	if !isPanic {
		if len(o.Results) != rs.Len() {
			return false
		}
		for i := 0; i < rs.Len(); i++ {
			if replayable(rs.At(i).Type()) == "" {
				want = append(want, nil)
				continue
			}
			v, ok := modelValue(q, o.Results[i], rs.At(i).Type(), "")
			if !ok {
				return false
			}
			want = append(want, v)
		}
	}
	// the test
	pkg := fn.Pkg.Pkg
	qual := func(p *types.Package) string {
		if p == pkg {
			return ""
		}
		return p.Name()
	}
	var src strings.Builder
	src.WriteString("package " + pkg.Name() + "\n\nimport (\n\t\"fmt\"\n\t\"testing\"\n)\n\n")
	src.WriteString("func TestGvcReplay(t *testing.T) {\n")
	src.WriteString("\tdefer func() {\n\t\tif r := recover(); r != nil {\n\t\t\tfmt.Printf(\"GVCREPLAY PANIC %v\\n\", r)\n\t\t}\n\t}()\n")
	var lits []string
	for _, a := range args {
		lits = append(lits, a.goLit(qual))
	}
	call := fn.Name() + "(" + strings.Join(lits, ", ") + ")"
	if rs.Len() == 0 {
		src.WriteString("\t" + call + "\n\tfmt.Println(\"GVCREPLAY RETURNED\")\n")
	} else {
		var rn []string
		for i := 0; i < rs.Len(); i++ {
			rn = append(rn, fmt.Sprintf("r%d", i))
		}
		src.WriteString("\t" + strings.Join(rn, ", ") + " := " + call + "\n\tfmt.Println(\"GVCREPLAY RETURNED\")\n")
		for i := 0; i < rs.Len(); i++ {
			switch replayable(rs.At(i).Type()) {
			case "int", "bool":
				src.WriteString(fmt.Sprintf("\tfmt.Printf(\"GVCREPLAY R%d %%v\\n\", r%d)\n", i, i))
			case "string", "bytes":
				src.WriteString(fmt.Sprintf("\tfmt.Printf(\"GVCREPLAY R%d %%q\\n\", string(r%d))\n", i, i))
			default:
				src.WriteString(fmt.Sprintf("\t_ = r%d\n", i))
			}
		}
	}
	src.WriteString("}\n")
	var inputs []string
	for i, a := range args {
		inputs = append(inputs, fn.Params[i].Name()+"="+a.show())
	}
	rf["replay_function"] = fn.String()
	rf["replay_inputs"] = inputs
	rf["replay_test_package"] = pkg.Path()
	rf["replay_test_source"] = src.String()
	var wantS []string
	for i, w := range want {
		if w != nil {
			wantS = append(wantS, fmt.Sprintf("R%d %s", i, w.show()))
		}
	}
	rf["replay_model_results"] = wantS
	rf["replay_mode"] = map[bool]string{true: "panic", false: "results"}[isPanic]
	out, confirmed := runReplay(repo, pkg.Path(), P.ModPath, src.String(), isPanic, wantS)
	rf["replay_output"] = out
	rf["replay_confirmed"] = confirmed
	return confirmed
}

// runReplay injects the test through an overlay and runs it.
func runReplay(repo, pkgPath, modPath, src string, isPanic bool, want []string) (string, bool) {
	rel := strings.TrimPrefix(strings.TrimPrefix(pkgPath, modPath), "/")
	dir := filepath.Join(repo, rel)
	tmp := filepath.Join(workDir, fmt.Sprintf("replay-%d", time.Now().UnixNano()))
	os.MkdirAll(tmp, 0o755)
	defer os.RemoveAll(tmp)
	testFile := filepath.Join(tmp, "zz_gvc_replay_test.go")
	os.WriteFile(testFile, []byte(src), 0o644)
	ov := map[string]map[string]string{"Replace": {filepath.Join(dir, "zz_gvc_replay_test.go"): testFile}}
	ob, _ := json.Marshal(ov)
	ovFile := filepath.Join(tmp, "overlay.json")
	os.WriteFile(ovFile, ob, 0o644)
	cmd := exec.Command("go", "test", "-overlay", ovFile, "-vet=off", "-count=1", "-timeout", "60s", "-run", "^TestGvcReplay$", "-v", ".")
	cmd.Dir = dir
	cmd.Env = append(os.Environ(), "GOFLAGS=-mod=mod", "GOPROXY=off", "GOSUMDB=off", "GOTOOLCHAIN=local")
	outb, _ := cmd.CombinedOutput()
	var lines []string
	for _, l := range strings.Split(string(outb), "\n") {
		if strings.HasPrefix(l, "GVCREPLAY") {
			lines = append(lines, strings.TrimSpace(l))
		}
	}
	out := strings.Join(lines, "\n")
	if len(lines) == 0 {
		return truncate(string(outb), 600), false
	}
	if isPanic {
		return out, strings.Contains(out, "GVCREPLAY PANIC")
	}
	if strings.Contains(out, "GVCREPLAY PANIC") || len(want) == 0 {
		return out, false
	}
	for _, w := range want {
		found := false
		for _, l := range lines {
			if l == "GVCREPLAY "+w {
				found = true
			}
		}
		if !found {
			return out, false
		}
	}
	return out, true
}

// cmdReplay re-runs a stored replay file.
func cmdReplay(args []string) int {
	if len(args) < 1 {
		fmt.Println("usage: gvc replay <file>")
		return 2
	}
	b, err := os.ReadFile(args[0])
	if err != nil {
		fmt.Println(err)
		return 2
	}
	var rf map[string]any
	if err := json.Unmarshal(b, &rf); err != nil {
		fmt.Println(err)
		return 2
	}
	fmt.Printf("obligation: %v\nstatus: %v\nclause: %v\n", rf["obligation"], rf["status"], rf["clause"])
	src, _ := rf["replay_test_source"].(string)
	if src == "" {
		fmt.Println("no failing input was found for this obligation; the verifier's output is in the file (solver_output, model)")
		return 0
	}
	initWork()
	defer cleanupWork()
	pkg, _ := rf["replay_test_package"].(string)
	var want []string
	if ws, ok := rf["replay_model_results"].([]any); ok {
		for _, w := range ws {
			want = append(want, fmt.Sprint(w))
		}
	}
	mod := "github.com/creachadair/jrpc2"
	out, ok := runReplay("/repo", pkg, mod, src, rf["replay_mode"] == "panic", want)
	fmt.Printf("inputs: %v\n%s\nconfirmed on the current tree: %v\n", rf["replay_inputs"], out, ok)
	if ok {
		return 1
	}
	return 0
}

var _ = ssa.Function{}
