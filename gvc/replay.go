package main

// Replay of counterexamples against the real code (go test -overlay).

func replayObligation(P *Prog, repo, prop, name string, o *Obligation, rf map[string]any) bool {
	return false
}
