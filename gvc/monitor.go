package main

// Monitors (lock invariants), lockset obligations and the immutable-field rule.

import (
	"fmt"
	"go/types"
	"strings"

	"golang.org/x/tools/go/ssa"
)

func (m *Monitor) guardExprs(fx *FnExec) []Expr {
	var out []Expr
	for _, g := range splitTop(strings.Join(m.Guards, " ")) {
		e, err := ParseExpr(g)
		if err != nil {
			panic(evalErr{fmt.Sprintf("monitor %s: bad guard %q: %v", m.Key, g, err)})
		}
		out = append(out, e)
	}
	return out
}

func (m *Monitor) ownerType(fx *FnExec) types.Type {
	i := strings.LastIndex(m.TypeName, ".")
	p := fx.P.TypesPkgs[m.TypeName[:i]]
	if p == nil {
		panic(evalErr{"monitor: unknown package " + m.TypeName[:i]})
	}
	obj := p.Scope().Lookup(m.TypeName[i+1:])
	if obj == nil {
		panic(evalErr{"monitor: unknown type " + m.TypeName})
	}
	return types.NewPointer(obj.Type())
}

// guarded field names (plain) and guarded maps
func (m *Monitor) guardSets(fx *FnExec) (fields, maps map[string]bool) {
	fields, maps = map[string]bool{}, map[string]bool{}
	for _, g := range m.guardExprs(fx) {
		switch x := g.(type) {
		case *EField:
			fields[x.Name] = true
		case *ECall:
			if x.Fn == "map" {
				if f, ok := x.Args[0].(*EField); ok {
					maps[f.Name] = true
				}
			}
		}
	}
	return
}

func (fx *FnExec) monitorFor(structType types.Type) *Monitor {
	tn := typeName(structType)
	for _, m := range fx.P.Specs.Monitors {
		if m.TypeName == tn {
			return m
		}
	}
	return nil
}

// monitorOfValue: v is the *sync.Mutex passed to Lock/Unlock.
func (fx *FnExec) monitorOfValue(v ssa.Value) (*Monitor, ssa.Value, bool) {
	var fa *ssa.FieldAddr
	switch x := v.(type) {
	case *ssa.UnOp:
		f, ok := x.X.(*ssa.FieldAddr)
		if !ok {
			return nil, nil, false
		}
		fa = f
	case *ssa.FieldAddr:
		fa = x
	default:
		return nil, nil, false
	}
	pt := fa.X.Type().Underlying().(*types.Pointer).Elem()
	f := pt.Underlying().(*types.Struct).Field(fa.Field)
	key := typeName(pt) + "." + f.Name()
	for _, m := range fx.P.Specs.Monitors {
		if m.Key == key {
			return m, fa.X, true
		}
	}
	return nil, nil, false
}

func (fx *FnExec) monitorEnv(st *State, m *Monitor, owner Term) *evalEnv {
	env := &evalEnv{fx: fx, st: st, vars: map[string]cval{}, pkg: fx.P.TypesPkgs[m.Pkg], old: st.entryHeap, iters: st.loopIters}
	env.vars[m.Owner] = cval{t: owner, typ: m.ownerType(fx), sort: "Int"}
	return env
}

func (fx *FnExec) monitorLock(st *State, fr *frame, site ssa.Instruction, cc *ssa.CallCommon, args *callArgs) {
	if cc == nil || len(cc.Args) == 0 {
		return
	}
	m, ownerVal, ok := fx.monitorOfValue(cc.Args[0])
	if !ok {
		return
	}
	owner := st.val(ownerVal)
	env := fx.monitorEnv(st, m, owner)
	before := st.snapshotHeap()
	for _, g := range m.guardExprs(fx) {
		fx.havocTarget(st, env, g)
	}
	defer fx.heapWFAfterHavoc(st, before)
	for _, gname := range m.GhostHavoc {
		e, err := ParseExpr(gname)
		if err != nil {
			panic(evalErr{err.Error()})
		}
		fx.havocTarget(st, env, e)
	}
	// rely: between this thread's last Unlock and this Lock only other threads'
	// critical sections ran, each of which preserves the two-state invariants
	if us, ok := st.unlockSnap[m.Key+"|"+owner]; ok {
		renv := *env
		renv.old = us
		for _, c := range m.Invariants2 {
			v, err := renv.safeEval(c.Expr)
			if err != nil {
				panic(fmt.Sprintf("%s:%d: %v", c.File, c.Line, err))
			}
			st.assume(v.t)
		}
	}
	// two-state invariants: old(e) is e at this Lock
	snap := st.snapshotHeap()
	ls := make(map[string]map[string]Term, len(st.lockSnap)+1)
	for k, v := range st.lockSnap {
		ls[k] = v
	}
	ls[m.Key+"|"+owner] = snap
	st.lockSnap = ls
	st.lastLock = snap
	env.old = snap
	for _, c := range m.Invariants {
		v, err := env.safeEval(c.Expr)
		if err != nil {
			panic(fmt.Sprintf("%s:%d: %v", c.File, c.Line, err))
		}
		st.assume(v.t)
	}
	// stable (rely) facts of the function under verification
	if fr != nil && fr.fc != nil {
		fenv := fx.frameEnv(st, fr)
		for _, c := range fr.fc.Stable {
			v, err := fenv.safeEval(c.Expr)
			if err != nil {
				panic(fmt.Sprintf("%s:%d: %v", c.File, c.Line, err))
			}
			st.assume(v.t)
			fx.notes = appendUnique(fx.notes, fmt.Sprintf("RELY (stable under other threads, paper argument) in %s: %s", shortFn(fr.fn), c.Src))
		}
	}
}

func (fx *FnExec) monitorUnlock(st *State, fr *frame, site ssa.Instruction, cc *ssa.CallCommon, args *callArgs, ordName string) {
	if cc == nil || len(cc.Args) == 0 {
		return
	}
	m, ownerVal, ok := fx.monitorOfValue(cc.Args[0])
	if !ok {
		return
	}
	owner := st.val(ownerVal)
	env := fx.monitorEnv(st, m, owner)
	if snap, ok := st.lockSnap[m.Key+"|"+owner]; ok {
		env.old = snap
	}
	for i, c := range m.Invariants {
		v, err := env.safeEval(c.Expr)
		if err != nil {
			panic(fmt.Sprintf("%s:%d: %v", c.File, c.Line, err))
		}
		fx.emit(st, fr, "monitor", clauseName(c, i)+"@"+ordName, v.t, c.Props, c.Src)
	}
	{
		us := make(map[string]map[string]Term, len(st.unlockSnap)+1)
		for k, v := range st.unlockSnap {
			us[k] = v
		}
		us[m.Key+"|"+owner] = st.snapshotHeap()
		st.unlockSnap = us
	}
	if _, haveSnap := st.lockSnap[m.Key+"|"+owner]; haveSnap {
		for i, c := range m.Invariants2 {
			v, err := env.safeEval(c.Expr)
			if err != nil {
				panic(fmt.Sprintf("%s:%d: %v", c.File, c.Line, err))
			}
			fx.emit(st, fr, "monitor", clauseName(c, i)+"@"+ordName, v.t, c.Props, c.Src)
		}
	}
}

// muTermFor returns the mutex reference guarding the object `base` of struct type t.
func (fx *FnExec) muTermFor(st *State, m *Monitor, t types.Type, base Term) Term {
	stt := t.Underlying().(*types.Struct)
	_, f := findField(stt, m.Field)
	if f == nil {
		panic(evalErr{"monitor field missing: " + m.Key})
	}
	if _, isPtr := f.Type().Underlying().(*types.Pointer); isPtr {
		hn := heapNameForField(t, m.Field)
		return "(select " + st.heapGet(hn, arrOf("Int")) + " " + base + ")"
	}
	return fx.fieldAddrTerm(t, m.Field, base)
}

func isFreshObject(v ssa.Value) bool {
	switch x := v.(type) {
	case *ssa.Alloc:
		return true
	case *ssa.FieldAddr:
		return isFreshObject(x.X)
	}
	return false
}

func (fx *FnExec) lockset(st *State, fr *frame, lv *LValue, ins ssa.Instruction, isStore bool) {
	if lv == nil || lv.fieldOf == nil || fx.nolockset {
		return
	}
	m := fx.monitorFor(lv.fieldOf)
	if m == nil {
		return
	}
	fields, _ := m.guardSets(fx)
	if !fields[lv.fieldName] {
		return
	}
	// accesses to a freshly constructed object are exempt
	var addr ssa.Value
	switch x := ins.(type) {
	case *ssa.Store:
		addr = x.Addr
	case *ssa.UnOp:
		addr = x.X
	}
	if addr != nil && isFreshObject(addr) {
		return
	}
	mu := fx.muTermFor(st, m, lv.fieldOf, lv.base)
	held := "(select " + st.heapGet("ghost.held", arrOf("Bool")) + " " + mu + ")"
	fx.emit(st, fr, "lockset", fx.ord(fr.fn, ins, "access")+"/"+lv.fieldName, held, nil, "")
}

func (fx *FnExec) locksetMap(st *State, fr *frame, mapVal ssa.Value, ins ssa.Instruction) {
	if fx.nolockset {
		return
	}
	ld, ok := mapVal.(*ssa.UnOp)
	if !ok {
		return
	}
	fa, ok := ld.X.(*ssa.FieldAddr)
	if !ok || isFreshObject(fa) {
		return
	}
	pt := fa.X.Type().Underlying().(*types.Pointer).Elem()
	m := fx.monitorFor(pt)
	if m == nil {
		return
	}
	f := pt.Underlying().(*types.Struct).Field(fa.Field)
	_, maps := m.guardSets(fx)
	if !maps[f.Name()] {
		return
	}
	mu := fx.muTermFor(st, m, pt, st.val(fa.X))
	held := "(select " + st.heapGet("ghost.held", arrOf("Bool")) + " " + mu + ")"
	key := instrKey(ins)
	if key == "" {
		key = "mapop"
	}
	fx.emit(st, fr, "lockset", fx.ord(fr.fn, ins, key)+"/map:"+f.Name(), held, nil, "")
}

func (fx *FnExec) immutableStore(st *State, fr *frame, lv *LValue, x *ssa.Store) {
	if lv == nil || lv.fieldOf == nil {
		return
	}
	if !fx.P.Specs.Immutable[typeName(lv.fieldOf)+"."+lv.fieldName] {
		return
	}
	if isFreshObject(x.Addr) {
		return
	}
	fx.emit(st, fr, "immutable", fx.ord(fr.fn, x, "store")+"/"+lv.fieldName, "false", nil, "")
}


// heapWFAfterHavoc: whatever other threads wrote into the guarded state, the
// result is a well-formed heap (stored references denote existing objects).
func (fx *FnExec) heapWFAfterHavoc(st *State, before map[string]Term) {
	for _, name := range sortedTermKeys(st.heap) {
		if before[name] == st.heap[name] {
			continue
		}
		srt := fx.heapSorts[name]
		if fx.heapWF(name, srt, "x", st.alloc) == "" {
			continue
		}
		c := fx.freshConst(name+"@c", srt)
		st.assume("(= " + c + " " + st.heap[name] + ")")
		st.heap[name] = c
		st.assume(fx.heapWF(name, srt, c, st.alloc))
	}
}
