package main

// Contract expression language: tokenizer, Pratt parser, AST.
//
//   e ::= literal | ident | e.f | e[i] | f(args) | old(e) | !e | -e | *e
//       | e op e | e ? e : e | forall(x T, y T, body) | exists(x T, body)
//   op ::= * / % + - < <= > >= == != && || ==> <==>

import (
	"fmt"
	"strconv"
	"strings"
	"unicode"
)

type Expr interface{ String() string }

type (
	EIdent  struct{ Name string }
	EInt    struct{ V string }
	EStr    struct{ V string }
	EUnary  struct {
		Op string
		X  Expr
	}
	EBinary struct {
		Op   string
		X, Y Expr
	}
	ECall struct {
		Fn   string
		Args []Expr
	}
	EField struct {
		X    Expr
		Name string
	}
	EIndex struct{ X, I Expr }
	ECond  struct{ C, A, B Expr }
	EQuant struct {
		Forall bool
		Vars   []QVar
		Body   Expr
	}
)

type QVar struct{ Name, Type string }

func (e *EIdent) String() string  { return e.Name }
func (e *EInt) String() string    { return e.V }
func (e *EStr) String() string    { return strconv.Quote(e.V) }
func (e *EUnary) String() string  { return e.Op + e.X.String() }
func (e *EBinary) String() string { return "(" + e.X.String() + " " + e.Op + " " + e.Y.String() + ")" }
func (e *ECall) String() string {
	var a []string
	for _, x := range e.Args {
		a = append(a, x.String())
	}
	return e.Fn + "(" + strings.Join(a, ", ") + ")"
}
func (e *EField) String() string { return e.X.String() + "." + e.Name }
func (e *EIndex) String() string { return e.X.String() + "[" + e.I.String() + "]" }
func (e *ECond) String() string {
	return "(" + e.C.String() + " ? " + e.A.String() + " : " + e.B.String() + ")"
}
func (e *EQuant) String() string {
	q := "exists"
	if e.Forall {
		q = "forall"
	}
	var vs []string
	for _, v := range e.Vars {
		vs = append(vs, v.Name+" "+v.Type)
	}
	return q + "(" + strings.Join(vs, ", ") + ", " + e.Body.String() + ")"
}

type etoken struct {
	kind string // id int str char op eof
	s    string
}

func lexExpr(src string) ([]etoken, error) {
	var toks []etoken
	i := 0
	for i < len(src) {
		c := src[i]
		switch {
		case c == ' ' || c == '\t':
			i++
		case unicode.IsLetter(rune(c)) || c == '_':
			j := i
			for j < len(src) && (unicode.IsLetter(rune(src[j])) || unicode.IsDigit(rune(src[j])) || src[j] == '_' || src[j] == '$' || src[j] == '@') {
				j++
			}
			toks = append(toks, etoken{"id", src[i:j]})
			i = j
		case c >= '0' && c <= '9':
			j := i
			for j < len(src) && (src[j] >= '0' && src[j] <= '9' || src[j] == 'x' || src[j] >= 'a' && src[j] <= 'f' || src[j] >= 'A' && src[j] <= 'F') {
				j++
			}
			toks = append(toks, etoken{"int", src[i:j]})
			i = j
		case c == '"':
			j := i + 1
			for j < len(src) && src[j] != '"' {
				if src[j] == '\\' {
					j++
				}
				j++
			}
			if j >= len(src) {
				return nil, fmt.Errorf("unterminated string in %q", src)
			}
			s, err := strconv.Unquote(src[i : j+1])
			if err != nil {
				return nil, fmt.Errorf("bad string %s: %v", src[i:j+1], err)
			}
			toks = append(toks, etoken{"str", s})
			i = j + 1
		case c == '\'':
			j := i + 1
			for j < len(src) && src[j] != '\'' {
				if src[j] == '\\' {
					j++
				}
				j++
			}
			if j >= len(src) {
				return nil, fmt.Errorf("unterminated char in %q", src)
			}
			r, _, _, err := strconv.UnquoteChar(src[i+1:j], '\'')
			if err != nil {
				return nil, fmt.Errorf("bad char %s", src[i:j+1])
			}
			toks = append(toks, etoken{"int", strconv.Itoa(int(r))})
			i = j + 1
		default:
			ops := []string{"<==>", "==>", "==", "!=", "<=", ">=", "&&", "||", "(", ")", "[", "]", ",", ".", "!", "-", "+", "*", "/", "%", "<", ">", "?", ":"}
			found := false
			for _, op := range ops {
				if strings.HasPrefix(src[i:], op) {
					toks = append(toks, etoken{"op", op})
					i += len(op)
					found = true
					break
				}
			}
			if !found {
				return nil, fmt.Errorf("unexpected character %q in %q", c, src)
			}
		}
	}
	toks = append(toks, etoken{"eof", ""})
	return toks, nil
}

type exprParser struct {
	toks []etoken
	pos  int
	src  string
}

func ParseExpr(src string) (Expr, error) {
	toks, err := lexExpr(src)
	if err != nil {
		return nil, err
	}
	p := &exprParser{toks: toks, src: src}
	e, err := p.parse(0)
	if err != nil {
		return nil, err
	}
	if p.peek().kind != "eof" {
		return nil, fmt.Errorf("trailing tokens at %q in %q", p.peek().s, src)
	}
	return e, nil
}

func (p *exprParser) peek() etoken { return p.toks[p.pos] }
func (p *exprParser) next() etoken { t := p.toks[p.pos]; p.pos++; return t }
func (p *exprParser) expect(op string) error {
	t := p.next()
	if t.kind != "op" || t.s != op {
		return fmt.Errorf("expected %q, got %q in %q", op, t.s, p.src)
	}
	return nil
}

var binPrec = map[string]int{
	"<==>": 1, "==>": 2, "||": 4, "&&": 5,
	"==": 6, "!=": 6, "<": 6, "<=": 6, ">": 6, ">=": 6,
	"+": 7, "-": 7, "*": 8, "/": 8, "%": 8,
}

func (p *exprParser) parse(minPrec int) (Expr, error) {
	lhs, err := p.parseUnary()
	if err != nil {
		return nil, err
	}
	for {
		t := p.peek()
		if t.kind != "op" {
			break
		}
		if t.s == "?" && minPrec <= 3 {
			p.next()
			a, err := p.parse(0)
			if err != nil {
				return nil, err
			}
			if err := p.expect(":"); err != nil {
				return nil, err
			}
			b, err := p.parse(3)
			if err != nil {
				return nil, err
			}
			lhs = &ECond{lhs, a, b}
			continue
		}
		prec, ok := binPrec[t.s]
		if !ok || prec < minPrec {
			break
		}
		p.next()
		var rhs Expr
		if t.s == "==>" || t.s == "<==>" { // right assoc
			rhs, err = p.parse(prec)
		} else {
			rhs, err = p.parse(prec + 1)
		}
		if err != nil {
			return nil, err
		}
		lhs = &EBinary{t.s, lhs, rhs}
	}
	return lhs, nil
}

func (p *exprParser) parseUnary() (Expr, error) {
	t := p.peek()
	if t.kind == "op" && (t.s == "!" || t.s == "-" || t.s == "*") {
		p.next()
		x, err := p.parseUnary()
		if err != nil {
			return nil, err
		}
		return &EUnary{t.s, x}, nil
	}
	return p.parsePostfix()
}

func (p *exprParser) parsePostfix() (Expr, error) {
	e, err := p.parsePrimary()
	if err != nil {
		return nil, err
	}
	for {
		t := p.peek()
		if t.kind == "op" && t.s == "." {
			p.next()
			id := p.next()
			if id.kind != "id" {
				return nil, fmt.Errorf("expected field name after '.' in %q", p.src)
			}
			// qualified call pkg.Fn(...)
			if p.peek().kind == "op" && p.peek().s == "(" {
				if base, ok := e.(*EIdent); ok {
					p.next()
					args, err := p.parseArgs()
					if err != nil {
						return nil, err
					}
					e = &ECall{base.Name + "." + id.s, args}
					continue
				}
			}
			e = &EField{e, id.s}
		} else if t.kind == "op" && t.s == "[" {
			p.next()
			i, err := p.parse(0)
			if err != nil {
				return nil, err
			}
			if err := p.expect("]"); err != nil {
				return nil, err
			}
			e = &EIndex{e, i}
		} else {
			break
		}
	}
	return e, nil
}

func (p *exprParser) parseArgs() ([]Expr, error) {
	var args []Expr
	if p.peek().kind == "op" && p.peek().s == ")" {
		p.next()
		return args, nil
	}
	for {
		a, err := p.parse(0)
		if err != nil {
			return nil, err
		}
		args = append(args, a)
		t := p.next()
		if t.kind == "op" && t.s == ")" {
			return args, nil
		}
		if t.kind != "op" || t.s != "," {
			return nil, fmt.Errorf("expected , or ) in %q", p.src)
		}
	}
}

func (p *exprParser) parsePrimary() (Expr, error) {
	t := p.next()
	switch t.kind {
	case "int":
		return &EInt{t.s}, nil
	case "str":
		return &EStr{t.s}, nil
	case "id":
		if p.peek().kind == "op" && p.peek().s == "(" {
			p.next()
			if t.s == "forall" || t.s == "exists" {
				return p.parseQuant(t.s == "forall")
			}
			args, err := p.parseArgs()
			if err != nil {
				return nil, err
			}
			return &ECall{t.s, args}, nil
		}
		return &EIdent{t.s}, nil
	case "op":
		if t.s == "(" {
			e, err := p.parse(0)
			if err != nil {
				return nil, err
			}
			if err := p.expect(")"); err != nil {
				return nil, err
			}
			return e, nil
		}
	}
	return nil, fmt.Errorf("unexpected etoken %q in %q", t.s, p.src)
}

// forall(x T, y T, body): every argument but the last is "name Type".
func (p *exprParser) parseQuant(forall bool) (Expr, error) {
	var vars []QVar
	for {
		// lookahead: id id  (possibly with * [] prefix on type)  followed by ','
		save := p.pos
		t1 := p.peek()
		if t1.kind == "id" {
			p.next()
			ty, ok := p.tryType()
			if ok && p.peek().kind == "op" && p.peek().s == "," {
				p.next()
				vars = append(vars, QVar{t1.s, ty})
				continue
			}
		}
		p.pos = save
		break
	}
	body, err := p.parse(0)
	if err != nil {
		return nil, err
	}
	if err := p.expect(")"); err != nil {
		return nil, err
	}
	if len(vars) == 0 {
		return nil, fmt.Errorf("quantifier without variables in %q", p.src)
	}
	return &EQuant{forall, vars, body}, nil
}

func (p *exprParser) tryType() (string, bool) {
	s := ""
	for {
		t := p.peek()
		if t.kind == "op" && (t.s == "*" || t.s == "[" || t.s == "]" || t.s == ".") {
			s += t.s
			p.next()
			continue
		}
		if t.kind == "id" {
			s += t.s
			p.next()
			if p.peek().kind == "op" && p.peek().s == "." {
				continue
			}
			return s, true
		}
		return "", false
	}
}
