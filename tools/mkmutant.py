#!/usr/bin/env python3
"""mkmutant.py PROP NAME FILE OLD NEW [-- FILE OLD NEW ...]
Create /verif/mutants/PROP/NAME.patch replacing OLD by NEW (exactly once) in
/repo/FILE. OLD/NEW are literal strings (use $'..' in the shell for newlines)."""
import sys, os, difflib
prop, name = sys.argv[1], sys.argv[2]
rest = sys.argv[3:]
groups, cur = [], []
for a in rest:
    if a == '--':
        groups.append(cur); cur = []
    else:
        cur.append(a)
groups.append(cur)
out = []
for g in groups:
    f, old, new = g
    src = open('/repo/' + f).read()
    if src.count(old) != 1:
        sys.exit('%s: OLD occurs %d times in %s' % (name, src.count(old), f))
    dst = src.replace(old, new)
    out += list(difflib.unified_diff(src.splitlines(True), dst.splitlines(True), 'a/' + f, 'b/' + f))
os.makedirs('/verif/mutants/' + prop, exist_ok=True)
open('/verif/mutants/%s/%s.patch' % (prop, name), 'w').write(''.join(out))
print('wrote mutants/%s/%s.patch' % (prop, name))
