#!/usr/bin/env python3
"""Regenerate /verif/MANIFEST.json from spec/props.json (claimed properties)
and spec/not_applicable.json (the rest)."""
import json, subprocess
props = json.load(open('/verif/spec/props.json'))
allids = [json.loads(l)['id'] for l in open('/verif/properties.jsonl')]
try:
    na = json.load(open('/verif/spec/not_applicable.json'))
except FileNotFoundError:
    na = {}
hooks = subprocess.run(['git','-C','/repo','log','--format=%H %s'],capture_output=True,text=True).stdout.splitlines()
hook_commits = [l.split()[0] for l in hooks if l.split(' ',1)[1].startswith('verif:')]
env = "GOFLAGS=-mod=mod GOPROXY=off GOSUMDB=off GOTOOLCHAIN=local"
checks = []
for pid in allids:
    if pid not in props:
        continue
    pd = props[pid]
    note = "Trusted base: the gvc VC generator (go/ssa -> SMT), the SMT solvers, go/ssa, the lock-invariant/ownership meta-theorem (DESIGN 5.5). "
    note += "Assumed contracts on dependencies and every un-contracted call are listed in the evidence file. "
    if pd.get('trusted'):
        note += "Property-specific trust: " + "; ".join(pd['trusted']) + ". "
    if pd.get('assumptions'):
        note += "Assumptions: " + "; ".join(pd['assumptions']) + ". "
    if pd.get('undecided'):
        note += "NOT decided by this check (left to other techniques): " + "; ".join(pd['undecided']) + ". "
    if pd.get('bounded'):
        note += "Bounded stand-ins (not counted as proved): " + "; ".join(pd['bounded']) + "."
    checks.append({
        "property_id": pid,
        "quick_cmd": "./bin/gvc check -p %s -tier quick" % pid,
        "thorough_cmd": "./bin/gvc check -p %s -tier thorough" % pid,
        "evidence_file": "/verif/evidence/%s.json" % pid,
        "replay_cmd_template": "./bin/gvc replay {path}",
        "engine": "gvc",
        "level_claimed": {
            "category": "proof",
            "text": "Every obligation generated from /repo's current SSA for the functions under contract (%d functions, %d lemmas, %d census rules) is discharged by an SMT solver for all inputs, all loop iterations and (through monitor invariants and thread-local ghost tokens) all interleavings; safety clauses only. %s" % (len(pd.get('functions',[])), len(pd.get('lemmas',[])), len(pd.get('census',[])), pd.get('composition','')),
            "design_ref": "DESIGN.md Part II, " + pid,
        },
        "level_note": note,
        "technique": "contract-based deductive verification: weakest-precondition VCs over go/ssa of the real code, contracts in verif_contracts.go, discharged by z3/cvc5",
    })
m = {
    "version": 1,
    "setup_cmd": "cd /verif/gvc && %s go build -o /verif/bin/gvc ." % env,
    "hooks": {
        "guard": "verif",
        "enable": "-tags verif (comment-only verif_contracts.go files; no code is added with the tag on or off)",
        "baseline_off_cmd": "cd /repo && %s go test -vet=off -count=1 -timeout 25m ./..." % env,
        "source_commits": hook_commits,
        "add_only": True,
    },
    "engines": [{"name": "gvc", "path": "/verif/gvc", "serves_properties": [c["property_id"] for c in checks],
                 "kind_free_text": "deductive verifier for Go written for this task: go/packages+go/ssa front end, contracts as //@ comments, path-wise VC generation with loop invariants, monitors, ghost tokens; SMT portfolio z3 4.8.12 / z3 5.1.0 / cvc5 1.0"}],
    "checks": checks,
    "notes": "See DESIGN.md. Known findings: /verif/known_findings.json. Must-fail corpus: /verif/mutants (./bin/gvc selftest).",
    "not_applicable": [{"property_id": pid, "reason": na.get(pid, "contracts for this property have not been brought within the verifier's reach yet (work in progress); no other technique is substituted")} for pid in allids if pid not in props],
}
json.dump(m, open('/verif/MANIFEST.json','w'), indent=1)
print("claimed:", [c["property_id"] for c in checks])
