#!/bin/bash
# validate_seed.sh <seed-dir>: confirm a seeded change in a scratch worktree:
#  - patch applies, repo builds, existing tests pass with it
#  - demo fails with the patch, passes without
# Writes <seed-dir>/validation.txt; removes the worktree afterwards.
set -u
export GOFLAGS=-mod=mod GOPROXY=off GOSUMDB=off GOTOOLCHAIN=local
SD=$(realpath "$1"); NAME=$(basename "$SD")
WT=/tmp/seedval-$NAME
OUT=$SD/validation.txt
: > "$OUT"
git -C /repo worktree remove --force "$WT" >/dev/null 2>&1
git -C /repo worktree add -q --detach "$WT" HEAD || { echo "worktree failed" >> "$OUT"; exit 1; }
cd "$WT"
PKGDIR=$(python3 -c "import json;print(json.load(open('$SD/meta.json')).get('demo_pkg_dir','.'))" 2>/dev/null || echo .)
PKGDIR=${PKGDIR#/tmp/wt/*/}; [ -z "$PKGDIR" ] && PKGDIR=.
case "$PKGDIR" in /*) PKGDIR=. ;; esac
RUNPAT=$(grep -o "Test[A-Za-z0-9_]*" "$SD/demo_test.go" | grep -E '^Test(Seed|C[0-9])' | head -1)
[ -z "$RUNPAT" ] && RUNPAT=Test
echo "pkgdir=$PKGDIR run=$RUNPAT" >> "$OUT"
cp "$SD/demo_test.go" "$WT/$PKGDIR/zz_seed_demo_test.go"
echo "== demo WITHOUT patch" >> "$OUT"
(cd "$WT/$PKGDIR" && go test -vet=off -count=1 -timeout 120s -run "$RUNPAT" . 2>&1 | tail -5) >> "$OUT"
WITHOUT=$(cd "$WT/$PKGDIR" && go test -vet=off -count=1 -timeout 120s -run "$RUNPAT" . >/dev/null 2>&1; echo $?)
if ! git apply "$SD/patch.diff" 2>>"$OUT"; then echo "RESULT: patch does not apply" >> "$OUT"; cd /; git -C /repo worktree remove --force "$WT"; exit 1; fi
echo "== build+existing tests WITH patch" >> "$OUT"
rm "$WT/$PKGDIR/zz_seed_demo_test.go"
(go build ./... && go test -vet=off -count=1 -timeout 300s ./... 2>&1 | tail -8) >> "$OUT" 2>&1
SUITE=$(go build ./... >/dev/null 2>&1 && go test -vet=off -count=1 -timeout 300s ./... >/dev/null 2>&1; echo $?)
cp "$SD/demo_test.go" "$WT/$PKGDIR/zz_seed_demo_test.go"
echo "== demo WITH patch" >> "$OUT"
(cd "$WT/$PKGDIR" && go test -vet=off -count=1 -timeout 120s -run "$RUNPAT" . 2>&1 | tail -8) >> "$OUT"
WITH=$(cd "$WT/$PKGDIR" && go test -vet=off -count=1 -timeout 120s -run "$RUNPAT" . >/dev/null 2>&1; echo $?)
echo "RESULT: suite_with_patch_exit=$SUITE demo_without_exit=$WITHOUT demo_with_exit=$WITH" >> "$OUT"
cd /; git -C /repo worktree remove --force "$WT"
if [ "$SUITE" = 0 ] && [ "$WITHOUT" = 0 ] && [ "$WITH" != 0 ]; then echo "CONFIRMED" >> "$OUT"; exit 0; fi
echo "NOT-CONFIRMED" >> "$OUT"; exit 1
