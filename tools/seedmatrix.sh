#!/bin/bash
# seedmatrix.sh: apply every seeded change to /repo (working tree must be clean),
# run the checks of its property (and closely related ones), record which
# obligations fail, undo. Writes seeded/<id>/detected.txt.
set -u
cd /verif
declare -A REL=( [C01]="C01" [C02]="C02 C07" [C03]="C03" [C04]="C04" [C05]="C05" [C06]="C06" [C07]="C07 C01" [C08]="C08 C09" [C09]="C09" [C10]="C10" [C11]="C11 C12" [C12]="C12" [C13]="C13" [C14]="C14" [C15]="C15" [C16]="C16" [C17]="C17" [C18]="C18 C04 C05" [C19]="C19" [C20]="C20" )
if [ -n "$(git -C /repo status --porcelain)" ]; then echo "/repo not clean"; exit 2; fi
for d in seeded/*/; do
  id=$(basename "$d"); prop=${id%%-*}
  [ -n "${1:-}" ] && [ "$1" != "$id" ] && continue
  out="$d/detected.txt"; : > "$out"
  if ! git -C /repo apply "/verif/$d/patch.diff" 2>>"$out"; then echo "$id: patch does not apply" | tee -a "$out"; continue; fi
  for p in ${REL[$prop]}; do
    echo "== check $p" >> "$out"
    ./bin/gvc check -p $p -no-evidence 2>&1 | grep -E "VIOLATION|^property|UNDECIDED" >> "$out"
  done
  git -C /repo apply -R "/verif/$d/patch.diff"
  n=$(grep -c VIOLATION "$out")
  echo "$id: $n violation lines"
done
