#!/usr/bin/env python3
"""Regenerate the per-property status table of DESIGN.md section 15 from the
evidence files written by the last run of every check."""
import json, re
props = json.load(open('/verif/spec/props.json'))
what = {}
s = open('/verif/DESIGN.md').read()
for m in re.finditer(r'^\| (C\d\d) \| *\d+ \| *\d+ \| *\d+ \| *\d+ \| (.*) \|$', s, re.M):
    what[m.group(1)] = m.group(2)
rows = ['| id | fn | obl | q | s | what carries the property |', '|----|---:|----:|----:|---:|---|']
for pid in sorted(props):
    ev = json.load(open('/verif/evidence/%s.json' % pid))
    c = ev['coverage']
    rows.append('| %s | %d | %d | %d | %d | %s |' % (pid, len(c['functions_under_contract']), c['obligations'], c['queries'], round(ev['wall_s']), what.get(pid, '')))
i = s.index('| id | fn | obl | q | s | what carries the property |')
j = s.index('\n\n', i)
open('/verif/DESIGN.md', 'w').write(s[:i] + '\n'.join(rows) + s[j:])
print('\n'.join(rows))
