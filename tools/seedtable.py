#!/usr/bin/env python3
"""Summarise seeded/<id>/detected.txt as a markdown table (stdout) and record
in each meta.json what was run to confirm and to detect the seed."""
import json, os, re, glob
first = {'C01-a':'first','C02-a':'first','C03-a':'first','C04-a':'after (engine hole 2, §19)','C05-a':'first','C06-a':'first',
 'C07-a':'first (by C01; C07 after)','C08-a':'after','C09-a':'first','C10-a':'first','C11-a':'first','C12-a':'first',
 'C13-a':'first (check built after the seed)','C14-a':'after','C15-a':'first (check built after the seed)','C16-a':'first (check built after the seed)',
 'C17-a':'after','C18-a':'first (check built after the seed)','C19-a':'first','C20-a':'after',
 'C01-b':'after (counting of todo, then decided)','C02-b':'after (firstByte was a trusted summary; now verified)','C03-b':'after','C04-b':'first','C05-b':'first (binding)','C06-b':'first',
 'C08-b':'after','C09-b':'first','C10-b':'first','C12-b':'first','C14-b':'first','C19-b':'first',
 'C07-b':'after','C11-b':'first','C13-b':'first','C15-b':'after (structFieldNames put under contract with reflect.Type observers as pure functions)',
 'C16-b':'after (makeCaller adapter: private argument vector per call)','C17-b':'first','C18-b':'after','C20-b':'first',
 'C01-c':'after (by C09 at first; order-preservation of filterBatchLocked then added to C01)','C03-c':'first','C04-c':'first','C05-c':'first','C07-c':'first','C08-c':'first','C09-c':'first','C13-c':'first',
 'C14-c':'first (by C01; tasks.responses then added to C14)','C17-c':'first','C18-c':'first','C20-c':'first (by C01/C08; the dispatcher then added to C20)',
 'C02-c':'first (by C14; WithData then added to C02)','C06-c':'first','C10-c':'first (by C13; toJSON then added to C10)','C11-c':'first',
 'C12-c':'after (decimal reading of Content-Length pinned via strconv.Atoi contract)','C15-c':'after (Check put under contract with reflect.Type observers)',
 'C16-c':'first','C19-c':'first (by C18; Bridge.serveInternal then added to C19)',
 'C02-d':'after (by C07 at first; request-shaped-members-kept then added to filterBatchLocked)','C05-d':'after (send-site assertion: the synthetic reply carries the code of pctx.Err())',
 'C06-d':'first','C07-d':'first','C08-d':'after (by C03 census at first; reserved-before-lock-dropped then added to dispatchLocked)','C10-d':'first',
 'C12-d':'after (field-name matching invariant of hdr.Recv, ghosts set where the name is folded)','C13-d':'first','C14-d':'first',
 'C17-d':'after (assignerResult now depends on the inbound request; own-handler clause of checkAndAssignLocked)','C18-d':'first','C19-d':'first',
 'C01-d':'after (read: the empty-batch error only for an empty array)','C03-d':'after (numToDo: notes counted against the spec cntNotes)','C04-d':'first',
 'C09-d':'after (Callback/Call: once the slot settled the outcome is the reply\'s alone)','C11-d':'after (direct.Recv put under contract; receives made visible to contracts)',
 'C15-d':'first','C16-d':'first','C20-d':'first',
 'C03-e':'first','C16-e':'first','C06-e':'first','C12-e':'first','C14-e':'first',
 'C10-e':'after (by C05 only with the lists as they stood that morning; the tagged-clause audit had put the Client functions under C10 an hour before this seed arrived)'}
rows=[]
for d in sorted(glob.glob('/verif/seeded/*/')):
    sid=os.path.basename(d.rstrip('/'))
    det=open(d+'detected.txt').read() if os.path.exists(d+'detected.txt') else ''
    obl=[]
    cur=None
    for l in det.splitlines():
        m=re.match(r'== check (\S+)',l)
        if m: cur=m.group(1)
        m=re.search(r'replay=/verif/replays/(C\d+)/(\S+)\.json',l)
        if m:
            name=m.group(2).replace('_23','#').replace('_3a',':').replace('_2d','-').replace('_2e','.').replace('_24','$')
            obl.append((m.group(1),name))
    meta=json.load(open(d+'meta.json'))
    val=open(d+'validation.txt').read().strip().splitlines()[-1] if os.path.exists(d+'validation.txt') else '?'
    props=sorted(set(p for p,_ in obl))
    shown='; '.join('%s: %s'%(p,n) for p,n in obl[:2])+(' (+%d more)'%(len(obl)-2) if len(obl)>2 else '')
    summ=meta.get('summary','').split('. ')[0][:110]
    rows.append('| %s | %s | %s | %s | %s |'%(sid, summ.replace('|','/'), val, first.get(sid,''), shown.replace('|','/') or 'NOT DETECTED'))
    meta['confirmed']=val
    meta['what_i_ran']=['tools/validate_seed.sh seeded/%s (fresh worktree: apply, build, go test ./..., demo with and without the patch) -> %s'%(sid,val),
                        'tools/seedmatrix.sh %s (git -C /repo apply; ./bin/gvc check -p <prop>; git apply -R) -> seeded/%s/detected.txt'%(sid,sid)]
    meta['detected_by']=['%s %s'%(p,n) for p,n in obl]
    json.dump(meta,open(d+'meta.json','w'),indent=1)
print('| seed | change (first sentence of the agent\'s summary) | validated | caught | failing obligations (property: name) |')
print('|---|---|---|---|---|')
print('\n'.join(rows))
